//go:build verif

package partiallyblindrsa_test

// C18 (partially blind RSA part): with metadata-derived keys, blind -> blind-sign -> finalise
// yields an RSASSA-PSS signature under (N, e') where e' is the draft's metadata-derived public
// exponent, recomputed here by verifref/pss; crypto/rsa serves as EMSA-PSS verifier through
// re-signing: rsa.PublicKey.E cannot hold a 512-bit exponent, so "valid under crypto/rsa with
// the derived key" is decided as len(sig)=k, s<N and rsa.VerifyPSS((s^e' mod N)^d) under (N,65537).
//
// Public API only. A Verifier holds one shared hash.Hash, so every worker builds its own.

import (
	"bytes"
	"crypto"
	"crypto/rsa"
	_ "crypto/sha512"
	"errors"
	"fmt"
	"io"
	"math/big"
	"sort"
	"strings"
	"sync"
	"testing"

	pb "github.com/cloudflare/circl/blindsign/blindrsa/partiallyblindrsa"
	"github.com/cloudflare/circl/internal/verifmc"
	"github.com/cloudflare/circl/internal/verifref/pss"
	"golang.org/x/crypto/hkdf"
)

const c18H = crypto.SHA384

type c18pKey struct {
	name string
	sk   *rsa.PrivateKey
	rk   *pss.Key // with e = 65537
	mu   sync.Mutex
	der  map[string]*pss.Key // metadata -> key with the derived exponent
}

func (k *c18pKey) derived(md []byte) *pss.Key {
	k.mu.Lock()
	defer k.mu.Unlock()
	if d, ok := k.der[string(md)]; ok {
		return d
	}
	e, err := pss.DeriveExponent(c18H, k.sk.N, md)
	if err != nil {
		panic(err)
	}
	d, err := k.rk.WithExponent(e)
	if err != nil {
		panic(err)
	}
	k.der[string(md)] = d
	return d
}

// oracle: is sig a valid RSASSA-PSS signature (SHA-384, MGF1-SHA-384, sLen 48) of frame(msg, md)
// under (N, e'(md))? Length and range as RFC 8017 §8.1.2 / RSAVP1, EMSA-PSS-VERIFY by crypto/rsa.
func (k *c18pKey) oracle(msg, md, sig []byte) bool {
	if len(sig) != k.rk.K() {
		return false
	}
	m, ok := k.derived(md).RSAVP1(new(big.Int).SetBytes(sig))
	if !ok {
		return false
	}
	s2 := pss.I2OSP(k.rk.RSASP1(m), k.rk.K())
	return rsa.VerifyPSS(&k.sk.PublicKey, c18H, pss.Sum(c18H, pss.FrameMessage(msg, md)), s2,
		&rsa.PSSOptions{Hash: c18H, SaltLength: c18H.Size()}) == nil
}

var (
	c18pOnce sync.Once
	c18pList []*c18pKey
	c18pErr  error
)

func c18pKeys(t testing.TB, r *verifmc.Run) []*c18pKey {
	c18pOnce.Do(func() {
		n := r.Pick(2, 3)
		for i := 0; i < n; i++ {
			sk, err := pss.SafePrimeKey(i)
			if err != nil {
				c18pErr = err
				return
			}
			rk, err := pss.FromStd(sk)
			if err != nil {
				c18pErr = err
				return
			}
			c18pList = append(c18pList, &c18pKey{name: fmt.Sprintf("safe_%d_%d", sk.N.BitLen(), i), sk: sk, rk: rk, der: map[string]*pss.Key{}})
		}
	})
	if c18pErr != nil {
		t.Fatalf("safe-prime fixtures: %v", c18pErr)
	}
	return c18pList
}

func c18pNames(ks []*c18pKey) []string {
	var s []string
	for _, k := range ks {
		s = append(s, fmt.Sprintf("%s(%d bits, safe primes)", k.name, k.sk.N.BitLen()))
	}
	return s
}

type c18Seq struct {
	data []byte
	off  int
	over bool
}

func (s *c18Seq) Read(p []byte) (int, error) {
	if s.off >= len(s.data) {
		s.over = true
		return 0, io.ErrUnexpectedEOF
	}
	n := copy(p, s.data[s.off:])
	s.off += n
	return n, nil
}

type c18Sink struct {
	mu sync.Mutex
	v  []c18V
}

type c18V struct {
	key, id, what string
	replay        interface{}
}

func (s *c18Sink) Violation(key, id, what string, replay interface{}) {
	s.mu.Lock()
	s.v = append(s.v, c18V{key, id, what, replay})
	s.mu.Unlock()
}

func (s *c18Sink) Flush(r *verifmc.Run) {
	sort.SliceStable(s.v, func(i, j int) bool {
		if s.v[i].key != s.v[j].key {
			return s.v[i].key < s.v[j].key
		}
		return s.v[i].id < s.v[j].id
	})
	for _, x := range s.v {
		r.Violation(x.key, x.id, x.what, x.replay)
	}
}

func c18Rep(b byte, n int) []byte { return bytes.Repeat([]byte{b}, n) }

var (
	c18Msgs  = [][]byte{{}, []byte("a"), verifmc.Msg(200)}
	c18Metas = [][]byte{{}, []byte("m"), verifmc.Msg(300)}
)

type c18Blind struct {
	name string
	r    *big.Int
}

func c18pBlinds(k *c18pKey, full bool) []c18Blind {
	N := k.sk.N
	sub := func(d int64) *big.Int { return new(big.Int).Sub(N, big.NewInt(d)) }
	sh := func(l string) *big.Int {
		x := new(big.Int).SetBytes(verifmc.Shake("c18-pblind-"+l+k.name, k.rk.K()+8))
		return x.Mod(x, N)
	}
	pat := new(big.Int).SetBytes(c18Rep(0x55, k.rk.K()))
	pat.Mod(pat, N)
	all := []c18Blind{{"1", big.NewInt(1)}, {"N-2", sub(2)}, {"shakeA", sh("A")},
		{"2", big.NewInt(2)}, {"N-1", sub(1)}, {"2^(bits-1)", new(big.Int).Lsh(big.NewInt(1), uint(N.BitLen()-1))},
		{"0x55..", pat}, {"shakeB", sh("B")}}
	if !full {
		all = all[:3]
	}
	var units []c18Blind
	for _, b := range all {
		if new(big.Int).GCD(nil, nil, b.r, N).Cmp(big.NewInt(1)) == 0 {
			units = append(units, b)
		}
	}
	return units
}

type c18pFlow struct {
	blinded, blindSig, sig []byte
	state                  pb.VerifierState
	ver                    pb.Verifier
	stage                  string
	err                    error
}

// c18pRun: FixedBlind (explicit salt and blind) -> BlindSign -> Finalize.
// With viaReader the blind goes through Blind(reader) instead (the salt then comes from crypto/rand).
func c18pRun(k *c18pKey, msg, md, salt []byte, r *big.Int, viaReader bool) (f c18pFlow) {
	f.ver = pb.NewVerifier(&k.sk.PublicKey, c18H)
	signer, err := pb.NewSigner(k.sk, c18H)
	if err != nil {
		f.stage, f.err = "NewSigner", err
		return
	}
	if viaReader {
		rd := &c18Seq{data: pss.I2OSP(r, k.rk.K())}
		f.blinded, f.state, err = f.ver.Blind(rd, msg, md)
	} else {
		rInv := new(big.Int).ModInverse(r, k.sk.N)
		f.blinded, f.state, err = f.ver.FixedBlind(msg, md, salt, r.Bytes(), rInv.Bytes())
	}
	if err != nil {
		f.stage, f.err = "Blind", err
		return
	}
	if f.blindSig, err = signer.BlindSign(f.blinded, md); err != nil {
		f.stage, f.err = "BlindSign", err
		return
	}
	if f.sig, err = f.state.Finalize(f.blindSig); err != nil {
		f.stage, f.err = "Finalize", err
		return
	}
	return
}

func c18pVerify(k *c18pKey, msg, md, sig []byte) error {
	// the implementation's parameter order is (message, metadata, signature) - as its own tests call it
	return pb.NewVerifier(&k.sk.PublicKey, c18H).Verify(msg, md, sig)
}

// ---------------------------------------------------------------------------------------------

func TestVerifC18_pb_refcheck(t *testing.T) {
	r := verifmc.Start(t, "C18", "pb_refcheck")
	defer r.Finish()
	r.Rule("HKDF on crypto/hmac equals x/crypto/hkdf on 3 hashes x 4 (ikm,salt,info,length) shapes; fixtures are safe-prime keys; the derived exponent is odd, " +
		"below 2^(lambda-2) and invertible mod phi for every metadata of the alphabet; a reference signature under the derived key passes the re-signing " +
		"oracle and each of its bit flips (first/last 4 bytes) does not; non-trivial = distinct checked item")
	keys := c18pKeys(t, r)
	r.Set("keys", c18pNames(keys))
	for _, h := range []crypto.Hash{crypto.SHA256, crypto.SHA384, crypto.SHA512} {
		for i, n := range []int{1, 48, 80, 300} {
			ikm, salt, info := verifmc.Shake("ikm", i*7), verifmc.Shake("salt", i*40), verifmc.Shake("info", i)
			want := make([]byte, n)
			if _, err := io.ReadFull(hkdf.New(h.New, ikm, salt, info), want); err != nil {
				t.Fatal(err)
			}
			if !bytes.Equal(want, pss.HKDF(h.New, ikm, salt, info, n)) {
				t.Fatalf("reference HKDF differs from x/crypto/hkdf (%v, n=%d)", h, n)
			}
			r.Eval(1)
			r.Distinct("hkdf", h, n)
		}
	}
	for _, k := range keys {
		if !pss.IsSafePrime(k.rk.P) || !pss.IsSafePrime(k.rk.Q) || k.sk.N.BitLen()%16 != 0 {
			t.Fatalf("%s: not a safe-prime key of the expected size", k.name)
		}
		lambda := k.sk.N.BitLen() / 2
		for mi, md := range c18Metas {
			d := k.derived(md)
			if d.E.Bit(0) != 1 || d.E.BitLen() > lambda-2 {
				t.Fatalf("%s: derived exponent not odd / too long (%d bits)", k.name, d.E.BitLen())
			}
			msg := []byte("refcheck")
			em, err := pss.Encode(c18H, pss.Sum(c18H, pss.FrameMessage(msg, md)), k.rk.EmBits(), c18Rep(3, 48))
			if err != nil {
				t.Fatal(err)
			}
			sig := d.SignEM(em)
			if !k.oracle(msg, md, sig) {
				t.Fatalf("%s: oracle refuses a reference signature under the derived key", k.name)
			}
			r.Count("oracle_accepts_reference", 1)
			for _, other := range c18Metas {
				if !bytes.Equal(other, md) && k.oracle(msg, other, sig) {
					t.Fatalf("%s: oracle accepts a signature under another metadata", k.name)
				}
			}
			for bit := 0; bit < 32; bit++ {
				for _, b := range []int{bit, len(sig)*8 - 1 - bit} {
					if k.oracle(msg, md, verifmc.Flip(sig, b)) {
						t.Fatalf("%s: oracle accepts a flipped signature", k.name)
					}
					r.Eval(1)
				}
			}
			r.Distinct("derive", k.name, mi)
		}
	}
	r.RequireCounter("oracle_accepts_reference", int64(len(keys)*3))
}

// ---------------------------------------------------------------------------------------------

func TestVerifC18_pb_protocol(t *testing.T) {
	r := verifmc.Start(t, "C18", "pb_protocol")
	defer r.Finish()
	vs := &c18Sink{}
	defer vs.Flush(r)
	r.Rule("product of safe-prime keys x messages {empty,'a',200B} x metadata {empty,'m',300B} x salts {01,02,7F}^48 x explicit blinds " +
		"{1,N-2,shakeA,2,N-1,2^(bits-1),0x55..,shakeB} through FixedBlind, plus Blind(reader) with the blinds {N-2,shakeA} (salt from crypto/rand, " +
		"success only); non-trivial = distinct (key,message,metadata,salt,blind,entry) whose flow completed")
	keys := c18pKeys(t, r)
	r.Set("keys", c18pNames(keys))
	type group struct {
		k      *c18pKey
		mi, di int
		sb     byte
	}
	var groups []group
	for _, k := range keys {
		for mi := range c18Msgs {
			for di := range c18Metas {
				for _, sb := range []byte{0x01, 0x02, 0x7f} {
					groups = append(groups, group{k, mi, di, sb})
				}
			}
		}
	}
	r.Set("groups", len(groups))
	verifmc.ParallelFor(len(groups), func(gi int) {
		g := groups[gi]
		k := g.k
		if r.Expired() {
			return
		}
		msg, md, salt := c18Msgs[g.mi], c18Metas[g.di], c18Rep(g.sb, 48)
		gid := fmt.Sprintf("%s/msg%d/md%d/salt=%02x", k.name, g.mi, g.di, g.sb)
		vio := func(entry, class, id, what string) {
			vs.Violation(fmt.Sprintf("C18|%s|%s", entry, class), id, id+": "+what,
				map[string]string{"key": k.name, "msg": verifmc.Hex(msg), "metadata": verifmc.Hex(md), "salt": verifmc.Hex(salt)})
		}
		check := func(id string, f c18pFlow) bool {
			if f.stage != "" {
				r.Outcome("honest flow failed at " + f.stage)
				vio("partiallyblindrsa."+f.stage, "honest flow fails", id, fmt.Sprintf("%s returned %v", f.stage, f.err))
				return false
			}
			r.Outcome("completed")
			r.Distinct(id)
			r.Count("flows_completed", 1)
			if len(f.sig) != k.rk.K() {
				vio("partiallyblindrsa.VerifierState.Finalize", "signature length != modulus length", id, fmt.Sprintf("len=%d", len(f.sig)))
				return false
			}
			if err := c18pVerify(k, msg, md, f.sig); err != nil {
				vio("partiallyblindrsa.Verifier.Verify", "honest signature refused", id, err.Error())
			}
			if !k.oracle(msg, md, f.sig) {
				vio("partiallyblindrsa.VerifierState.Finalize", "signature not valid RSASSA-PSS under the derived key (crypto/rsa)", id, "sig="+verifmc.Hex(f.sig))
			} else {
				r.Count("accepted_by_crypto/rsa_oracle", 1)
			}
			return true
		}
		var first []byte
		var firstName string
		blinds := c18pBlinds(k, true)
		seen := map[string]bool{}
		for _, b := range blinds {
			id := gid + "/FixedBlind/r=" + b.name
			if !r.Want(id) {
				continue
			}
			var f c18pFlow
			if p, what := verifmc.Try(func() { f = c18pRun(k, msg, md, salt, b.r, false) }); p {
				vio("partiallyblindrsa.protocol", "panic:"+verifmc.PanicClass(what), id, what)
				continue
			}
			r.Eval(1)
			if !check(id, f) {
				continue
			}
			if seen[string(f.blinded)] {
				r.Count("blinds_not_distinct", 1)
			}
			seen[string(f.blinded)] = true
			// the state reports the salt and blind it was given
			if !bytes.Equal(f.state.CopySalt(), salt) || new(big.Int).SetBytes(f.state.CopyBlind()).Cmp(b.r) != 0 {
				r.Count("state_copy_mismatch", 1)
			}
			em, _ := pss.Encode(c18H, pss.Sum(c18H, pss.FrameMessage(msg, md)), k.rk.EmBits(), salt)
			if bytes.Equal(f.sig, k.derived(md).SignEM(em)) {
				r.Count("sig_equals_reference_signature", 1)
			}
			if first == nil {
				first, firstName = f.sig, b.name
				if gi%20 == 0 {
					r.Sample(map[string]string{"case": id, "blinded_msg": verifmc.Hex(f.blinded), "sig": verifmc.Hex(f.sig)})
				}
			} else {
				r.Count("blind_pairs_compared", 1)
				if !bytes.Equal(first, f.sig) {
					vio("partiallyblindrsa.protocol", "signature depends on the blind", id, fmt.Sprintf("r=%s gives %s, r=%s gives %s", firstName, verifmc.Hex(first), b.name, verifmc.Hex(f.sig)))
				}
			}
		}
		if g.sb == 0x01 { // Blind(reader): the salt is not controllable, run once per (key,msg,metadata)
			for _, b := range blinds[1:3] {
				id := fmt.Sprintf("%s/msg%d/md%d/Blind(reader)/r=%s", k.name, g.mi, g.di, b.name)
				if !r.Want(id) {
					continue
				}
				var f c18pFlow
				if p, what := verifmc.Try(func() { f = c18pRun(k, msg, md, nil, b.r, true) }); p {
					vio("partiallyblindrsa.protocol", "panic:"+verifmc.PanicClass(what), id, what)
					continue
				}
				r.Eval(1)
				if check(id, f) {
					r.Count("flows_via_Blind(reader)", 1)
					if new(big.Int).SetBytes(f.state.CopyBlind()).Cmp(b.r) == 0 {
						r.Count("reader_blind_as_declared", 1)
					}
				}
			}
		}
	})
	if !r.Replaying() {
		if r.Counter("blinds_not_distinct") > 0 {
			r.NotExhaustive("two different blinds gave the same blinded message")
		}
		if r.Counter("reader_blind_as_declared") != r.Counter("flows_via_Blind(reader)") {
			r.NotExhaustive("Blind(reader) did not take the blind from the reader bytes as assumed")
		}
	}
	r.RequireCounter("flows_completed", int64(len(groups)*8))
	r.RequireCounter("blind_pairs_compared", int64(len(groups)*7))
	r.RequireCounter("flows_via_Blind(reader)", int64(len(keys)*9*2))
}

// ---------------------------------------------------------------------------------------------

func TestVerifC18_pb_finalize(t *testing.T) {
	r := verifmc.Start(t, "C18", "pb_finalize")
	defer r.Finish()
	vs := &c18Sink{}
	defer vs.Flush(r)
	r.Rule("for every safe-prime key x metadata {empty,300B} x blinds {N-2,shakeA}: the honest blind signature z finalises; every single-bit flip of z (8k), " +
		"z+-1, {0,1,N-1,N,N+1,2^(8k)-1,N-z}, z+jN (when it fits) and 6 wrong-length forms must make Finalize fail, and the state must still finalise z; " +
		"non-trivial = distinct (key,metadata,blind,alteration)")
	keys := c18pKeys(t, r)
	r.Set("keys", c18pNames(keys))
	type job struct {
		k  *c18pKey
		di int
		b  c18Blind
	}
	var jobs []job
	for _, k := range keys {
		for _, di := range []int{0, 2} {
			for _, b := range c18pBlinds(k, false)[1:] {
				jobs = append(jobs, job{k, di, b})
			}
		}
	}
	for ji, j := range jobs {
		k := j.k
		if r.Expired() {
			break
		}
		base := fmt.Sprintf("%s/md%d/r=%s", k.name, j.di, j.b.name)
		f := c18pRun(k, []byte("finalize"), c18Metas[j.di], c18Rep(0x7f, 48), j.b.r, false)
		if f.stage != "" {
			vs.Violation("C18|partiallyblindrsa."+f.stage+"|honest flow fails", base, fmt.Sprintf("%s: %s returned %v", base, f.stage, f.err), nil)
			continue
		}
		r.Count("honest_finalised", 1)
		var alts []pss.Alt
		verifmc.BitFlips(f.blindSig, func(bit int, data []byte) {
			alts = append(alts, pss.Alt{Class: "bit flip", Name: fmt.Sprintf("bit%d", bit), Data: append([]byte{}, data...)})
		})
		alts = append(alts, pss.IntAlts(k.sk.N, k.rk.K(), f.blindSig, "congruent not below modulus (z+jN)")...)
		alts = append(alts, pss.LenAlts(f.blindSig)...)
		// VerifierState.Finalize only reads the state (big.Int values and byte slices): workers may share it
		verifmc.ParallelFor(len(alts), func(ai int) {
			a := alts[ai]
			id := base + "/" + a.Class + "/" + a.Name
			if !r.Want(id) {
				return
			}
			r.Eval(1)
			r.Distinct(id)
			var sig []byte
			var err error
			if p, what := verifmc.Try(func() { sig, err = f.state.Finalize(a.Data) }); p {
				vs.Violation(fmt.Sprintf("C18|partiallyblindrsa.VerifierState.Finalize|panic:%s|%s", verifmc.PanicClass(what), a.Class), id, id+": "+what, map[string]string{"blind_sig": verifmc.FullHex(a.Data)})
				return
			}
			r.Count("alt:"+a.Class, 1)
			if err == nil {
				r.Outcome("altered blind signature finalised: " + a.Class)
				same := "a different signature"
				if bytes.Equal(sig, f.sig) {
					same = "the same signature as the honest one"
				}
				vs.Violation(fmt.Sprintf("C18|partiallyblindrsa.VerifierState.Finalize|accepts altered blind signature|%s", a.Class), id,
					fmt.Sprintf("%s: Finalize accepted a blind signature that differs from the signer's (%s) and returned %s", id, a.Name, same),
					map[string]string{"key": k.name, "honest_blind_sig": verifmc.FullHex(f.blindSig), "altered_blind_sig": verifmc.FullHex(a.Data)})
				return
			}
			r.Outcome("altered blind signature refused")
			if sig != nil {
				vs.Violation(fmt.Sprintf("C18|partiallyblindrsa.VerifierState.Finalize|failed finalisation releases bytes|%s", a.Class), id, id+": error and non-nil signature", nil)
			}
		})
		if ji == 0 {
			r.Sample(map[string]interface{}{"case": base, "honest_blind_sig": verifmc.Hex(f.blindSig), "alterations": len(alts)})
		}
		if sig, err := f.state.Finalize(f.blindSig); err != nil || !bytes.Equal(sig, f.sig) {
			vs.Violation("C18|partiallyblindrsa.VerifierState.Finalize|state unusable after failed finalisations", base, fmt.Sprintf("%s: err=%v", base, err), nil)
		} else {
			r.Count("state_still_finalises", 1)
		}
	}
	r.RequireCounter("honest_finalised", int64(len(jobs)))
	r.RequireCounter("alt:bit flip", int64(len(jobs)*1024))
	r.RequireCounter("alt:wrong length", int64(len(jobs)*6))
	r.RequireCounter("alt:special value", int64(len(jobs)*6))
}

// ---------------------------------------------------------------------------------------------

func TestVerifC18_pb_signer(t *testing.T) {
	r := verifmc.Start(t, "C18", "pb_signer")
	defer r.Finish()
	vs := &c18Sink{}
	defer vs.Flush(r)
	r.Rule("for every safe-prime key x metadata {empty,'m',300B}: inputs {0,1,2,unit,N-2,N-1 | N,N+1,N+2,unit+N,2N-1,2N,2^(8k)-1} as k bytes and 7 wrong-length forms: " +
		"refused iff not below N or wrong length; accepted results s satisfy s^e' = input mod N for the reference-derived e'; non-trivial = distinct (key,metadata,input)")
	keys := c18pKeys(t, r)
	r.Set("keys", c18pNames(keys))
	type job struct {
		k  *c18pKey
		di int
	}
	var jobs []job
	for _, k := range keys {
		for di := range c18Metas {
			jobs = append(jobs, job{k, di})
		}
	}
	verifmc.ParallelFor(len(jobs), func(ji int) {
		k, md := jobs[ji].k, c18Metas[jobs[ji].di]
		K, N := k.rk.K(), k.sk.N
		lim := new(big.Int).Lsh(big.NewInt(1), uint(8*K))
		signer, err := pb.NewSigner(k.sk, c18H)
		if err != nil {
			vs.Violation("C18|partiallyblindrsa.NewSigner|refuses a safe-prime key", k.name, err.Error(), nil)
			return
		}
		type in struct {
			name string
			data []byte
			ok   int
		}
		var ins []in
		addInt := func(name string, x *big.Int) {
			if x.Sign() < 0 || x.Cmp(lim) >= 0 {
				return
			}
			ok := 0
			if x.Cmp(N) < 0 {
				ok = 1
				if new(big.Int).GCD(nil, nil, x, N).Cmp(big.NewInt(1)) != 0 {
					ok = -1
				}
			}
			ins = append(ins, in{name, pss.I2OSP(x, K), ok})
		}
		unit := new(big.Int).SetBytes(verifmc.Shake("c18-psigner-unit"+k.name, K-1))
		addInt("0", big.NewInt(0))
		addInt("1", big.NewInt(1))
		addInt("2", big.NewInt(2))
		addInt("unit", unit)
		addInt("N-2", new(big.Int).Sub(N, big.NewInt(2)))
		addInt("N-1", new(big.Int).Sub(N, big.NewInt(1)))
		addInt("N", N)
		addInt("N+1", new(big.Int).Add(N, big.NewInt(1)))
		addInt("N+2", new(big.Int).Add(N, big.NewInt(2)))
		addInt("unit+N", new(big.Int).Add(unit, N))
		addInt("2N-1", new(big.Int).Sub(new(big.Int).Lsh(N, 1), big.NewInt(1)))
		addInt("2N", new(big.Int).Lsh(N, 1))
		addInt("2^(8k)-1", new(big.Int).Sub(lim, big.NewInt(1)))
		for _, a := range pss.LenAlts(pss.I2OSP(unit, K)) {
			ins = append(ins, in{"len:" + a.Name, a.Data, 0})
		}
		ins = append(ins, in{"len:unit-as-minimal-bytes", unit.Bytes(), 0})
		for _, x := range ins {
			id := fmt.Sprintf("%s/md%d/%s", k.name, jobs[ji].di, x.name)
			if !r.Want(id) {
				continue
			}
			r.Eval(1)
			r.Distinct(id)
			var out []byte
			var err error
			if p, what := verifmc.Try(func() { out, err = signer.BlindSign(x.data, md) }); p {
				vs.Violation("C18|partiallyblindrsa.Signer.BlindSign|panic:"+verifmc.PanicClass(what)+"|"+x.name, id, id+": "+what, map[string]string{"input": verifmc.FullHex(x.data)})
				continue
			}
			switch {
			case err != nil && x.ok == 1:
				r.Outcome("in-range refused")
				vs.Violation("C18|partiallyblindrsa.Signer.BlindSign|refuses an input below the modulus|"+x.name, id, fmt.Sprintf("%s: %v", id, err), map[string]string{"input": verifmc.FullHex(x.data)})
			case err == nil && x.ok == 0:
				r.Outcome("out-of-range accepted")
				vs.Violation("C18|partiallyblindrsa.Signer.BlindSign|signs an input not below the modulus or of wrong length|"+x.name, id,
					fmt.Sprintf("%s: returned %s", id, verifmc.Hex(out)), map[string]string{"input": verifmc.FullHex(x.data)})
			case err != nil:
				r.Outcome("refused")
				r.Count("refused", 1)
				if errors.Is(err, pb.ErrUnexpectedSize) {
					r.Count("refused_ErrUnexpectedSize", 1)
				}
			default:
				r.Outcome("signed")
				r.Count("signed", 1)
				m, ok := k.derived(md).RSAVP1(new(big.Int).SetBytes(out))
				if len(out) != K || !ok || m.Cmp(new(big.Int).SetBytes(x.data)) != 0 {
					vs.Violation("C18|partiallyblindrsa.Signer.BlindSign|result is not the e'-th root of the input|"+x.name, id, fmt.Sprintf("%s: out=%s", id, verifmc.Hex(out)), nil)
				}
			}
		}
		if ji == 0 {
			r.Sample(map[string]interface{}{"key": k.name, "inputs": len(ins)})
		}
	})
	r.RequireCounter("refused", int64(len(jobs)*9))
	r.RequireCounter("signed", int64(len(jobs)*5))
}

// ---------------------------------------------------------------------------------------------

func TestVerifC18_pb_verifier(t *testing.T) {
	r := verifmc.Start(t, "C18", "pb_verifier")
	defer r.Finish()
	vs := &c18Sink{}
	defer vs.Flush(r)
	r.Rule("for every safe-prime key x metadata {empty,300B}: the encoded-message alphabet of verifref/pss.EMCases on the honest 48-byte-salt encoding of frame(msg,metadata) " +
		"(every single-bit flip of the representative, trailers, PS bytes, separators, top bits, salt lengths, H mismatches, degenerate EMs), signed with the derived private " +
		"exponent, plus signature-level alterations {+-1,0,1,N-1,N,N+1,2^(8k)-1,N-s,s+jN, 6 wrong lengths}, other messages and other metadata; " +
		"Verify's verdict must equal the crypto/rsa re-signing oracle's; non-trivial = distinct (key,metadata,message,signature)")
	keys := c18pKeys(t, r)
	r.Set("keys", c18pNames(keys))
	type vcase struct {
		class, name string
		msg, md     []byte
		sig         []byte
	}
	var unsignable int64
	njobs := 0
	for _, k := range keys {
		for _, di := range []int{0, 2} {
			if r.Expired() {
				break
			}
			njobs++
			msg, md := c18Msgs[2], c18Metas[di]
			dk := k.derived(md)
			ems, un := pss.EMCases(dk, c18H, pss.Sum(c18H, pss.FrameMessage(msg, md)), verifmc.Shake("c18-psalt", 48))
			unsignable += int64(un)
			honest := dk.SignEM(ems[0].Data)
			cases := make([]vcase, len(ems))
			for i, e := range ems {
				cases[i] = vcase{e.Class, e.Name, msg, md, nil}
			}
			for _, a := range pss.IntAlts(k.sk.N, k.rk.K(), honest, "congruent not below modulus (s+jN)") {
				cases = append(cases, vcase{a.Class, "sig" + a.Name, msg, md, a.Data})
			}
			for _, a := range pss.LenAlts(honest) {
				cases = append(cases, vcase{a.Class, "sig-" + a.Name, msg, md, a.Data})
			}
			cases = append(cases,
				vcase{"other message", "msg-flip", verifmc.Flip(msg, 0), md, honest},
				vcase{"other message", "msg-empty", []byte{}, md, honest},
				vcase{"other metadata", "md-other", msg, c18Metas[1], honest},
				vcase{"other metadata", "md-extended", msg, append(append([]byte{}, md...), 0), honest},
				vcase{"other metadata", "md-swapped-with-msg", md, msg, honest})
			verifmc.ParallelFor(len(cases), func(ci int) {
				c := cases[ci]
				id := fmt.Sprintf("%s/md%d/%s", k.name, di, c.name)
				if !r.Want(id) {
					return
				}
				if c.sig == nil {
					c.sig = dk.SignEM(ems[ci].Data)
				}
				r.Eval(1)
				r.Distinct(k.name, c.md, c.msg, c.sig)
				r.Count("class:"+c.class, 1)
				want := k.oracle(c.msg, c.md, c.sig)
				var e1 error
				if p, what := verifmc.Try(func() { e1 = c18pVerify(k, c.msg, c.md, c.sig) }); p {
					vs.Violation(fmt.Sprintf("C18|partiallyblindrsa.Verifier.Verify|panic:%s|%s", verifmc.PanicClass(what), c.class), id, id+": "+what,
						map[string]string{"key": k.name, "msg": verifmc.FullHex(c.msg), "metadata": verifmc.FullHex(c.md), "sig": verifmc.FullHex(c.sig)})
					return
				}
				got := e1 == nil
				switch {
				case got && want:
					r.Outcome("both accept")
					r.Count("both_accept", 1)
					r.Count("accepted:"+c.class, 1)
				case !got && !want:
					r.Outcome("both refuse")
					r.Count("both_refuse", 1)
				case got && !want:
					r.Outcome("library accepts, crypto/rsa oracle refuses")
					vs.Violation(fmt.Sprintf("C18|partiallyblindrsa.Verifier.Verify|accepts what rsa.VerifyPSS refuses|%s", c.class), id,
						fmt.Sprintf("%s: library verifier accepts, the crypto/rsa oracle for the derived key refuses", id),
						map[string]string{"key": k.name, "msg": verifmc.FullHex(c.msg), "metadata": verifmc.FullHex(c.md), "sig": verifmc.FullHex(c.sig)})
				default:
					r.Outcome("library refuses, crypto/rsa oracle accepts")
					vs.Violation(fmt.Sprintf("C18|partiallyblindrsa.Verifier.Verify|refuses what rsa.VerifyPSS accepts|%s", c.class), id,
						fmt.Sprintf("%s: library verifier refuses (%v), the crypto/rsa oracle for the derived key accepts", id, e1),
						map[string]string{"key": k.name, "msg": verifmc.FullHex(c.msg), "metadata": verifmc.FullHex(c.md), "sig": verifmc.FullHex(c.sig)})
				}
			})
			if njobs == 1 {
				r.Sample(map[string]interface{}{"key": k.name, "metadata": "empty", "cases": len(cases), "honest_sig": verifmc.Hex(honest)})
			}
		}
	}
	r.Set("crafted_EM_not_below_N_skipped", unsignable)
	nj := int64(njobs)
	r.RequireCounter("class:EM bit flip", nj*900)
	r.RequireCounter("class:trailer", nj*247)
	r.RequireCounter("class:PS byte non-zero", nj*2*29)
	r.RequireCounter("accepted:honest", nj)
	r.RequireCounter("both_refuse", nj*1200)
}

// ---------------------------------------------------------------------------------------------

// TestVerifC18_pb_history: every operation sequence of length 3 (hence every one up to depth 3, checked after each
// step) on ONE Verifier (whose single hash.Hash is exposed through Hash()) and ONE Signer: results must depend on
// the explicit arguments only, i.e. equal what fresh objects give.
func TestVerifC18_pb_history(t *testing.T) {
	r := verifmc.Start(t, "C18", "pb_history")
	defer r.Finish()
	vs := &c18Sink{}
	defer vs.Flush(r)
	opNames := []string{"Hash.Write(0B)", "Hash.Write(1B)", "Hash.Write(64B)", "Hash.Sum", "FixedBlind+Sign+Finalize(m0)", "Blind(reader)+Sign+Finalize(m1)", "Verify(good)", "Verify(bad)"}
	r.Rule("safe-prime key 0: all 8^3 sequences over {write 0/1/64 bytes into Verifier.Hash(), Hash().Sum, FixedBlind(m0,md0,fixed salt,fixed blind)+BlindSign+Finalize, " +
		"Blind(reader with fixed blind; salt from crypto/rand)(m1,md1)+BlindSign+Finalize, Verify(honest sig), Verify(bit-flipped sig)} on one Verifier and one Signer, checked after every step: " +
		"FixedBlind flow byte-identical (blinded message, signature) to fresh objects, every produced signature accepted by the crypto/rsa oracle for the derived key and by a fresh Verifier; " +
		"non-trivial = distinct sequence")
	r.Set("alphabet", opNames)
	r.Set("depth", 3)
	k := c18pKeys(t, r)[0]
	m0, md0 := []byte("history-0"), []byte("md")
	m1, md1 := verifmc.Msg(200), []byte{}
	salt := c18Rep(0x02, 48)
	blind := c18pBlinds(k, false)[2].r
	rInv := new(big.Int).ModInverse(blind, k.sk.N)
	ref := c18pRun(k, m0, md0, salt, blind, false)
	if ref.stage != "" || !k.oracle(m0, md0, ref.sig) {
		vs.Violation("C18|partiallyblindrsa.history|fresh objects do not produce a valid signature", k.name, fmt.Sprintf("stage %q err %v", ref.stage, ref.err), nil)
		return
	}
	badSig := verifmc.Flip(ref.sig, 13)
	nOps := len(opNames)
	total := nOps * nOps * nOps
	verifmc.ParallelFor(total, func(hi int) {
		seq := []int{hi / (nOps * nOps), hi / nOps % nOps, hi % nOps}
		names := []string{opNames[seq[0]], opNames[seq[1]], opNames[seq[2]]}
		id := fmt.Sprintf("%s/[%s]", k.name, strings.Join(names, ","))
		if !r.Want(id) {
			return
		}
		ver := pb.NewVerifier(&k.sk.PublicKey, c18H)
		signer, err := pb.NewSigner(k.sk, c18H)
		if err != nil {
			vs.Violation("C18|partiallyblindrsa.NewSigner|refuses a safe-prime key", id, err.Error(), nil)
			return
		}
		r.Trace(1)
		r.Distinct(id)
		dirty := false // bytes written into the exposed hash since the last protocol operation
		for step, op := range seq {
			at := fmt.Sprintf("%s step %d (%s)", id, step+1, opNames[op])
			fail := func(class, what string) {
				st := "clean exposed hash"
				if dirty {
					st = "after writes to Verifier.Hash()"
				}
				vs.Violation(fmt.Sprintf("C18|partiallyblindrsa.history|%s|%s|%s", class, opNames[op], st), id, at+": "+what,
					map[string]string{"key": k.name, "history": strings.Join(names[:step+1], ",")})
			}
			finish := func(blinded []byte, state pb.VerifierState, msg, md []byte) []byte {
				bs, err := signer.BlindSign(blinded, md)
				if err != nil {
					fail("flow fails on reused objects", "BlindSign: "+err.Error())
					return nil
				}
				sig, err := state.Finalize(bs)
				if err != nil {
					fail("flow fails on reused objects", "Finalize: "+err.Error())
					return nil
				}
				if !k.oracle(msg, md, sig) {
					fail("signature not valid RSASSA-PSS under the derived key (crypto/rsa)", "sig "+verifmc.Hex(sig))
				}
				if err := c18pVerify(k, msg, md, sig); err != nil {
					fail("signature refused by a fresh Verifier", err.Error())
				}
				return sig
			}
			r.Transition(1)
			r.Eval(1)
			p, what := verifmc.Try(func() {
				switch op {
				case 0, 1, 2:
					n := []int{0, 1, 64}[op]
					ver.Hash().Write(verifmc.Shake("c18-history-write", n))
					dirty = dirty || n > 0
					r.Count("hash_writes", 1)
				case 3:
					_ = ver.Hash().Sum(nil)
				case 4:
					if dirty {
						r.Count("sign_after_dirty_hash", 1)
					}
					blinded, state, err := ver.FixedBlind(m0, md0, salt, blind.Bytes(), rInv.Bytes())
					if err != nil {
						fail("flow fails on reused objects", "FixedBlind: "+err.Error())
						return
					}
					sig := finish(blinded, state, m0, md0)
					if sig != nil && (!bytes.Equal(blinded, ref.blinded) || !bytes.Equal(sig, ref.sig)) {
						fail("result differs from fresh objects", fmt.Sprintf("sig %s, fresh objects give %s", verifmc.Hex(sig), verifmc.Hex(ref.sig)))
					}
					dirty = false
					r.Count("signatures_compared_with_fresh", 1)
				case 5:
					if dirty {
						r.Count("sign_after_dirty_hash", 1)
					}
					blinded, state, err := ver.Blind(&c18Seq{data: pss.I2OSP(blind, k.rk.K())}, m1, md1)
					if err != nil {
						fail("flow fails on reused objects", "Blind: "+err.Error())
						return
					}
					finish(blinded, state, m1, md1)
					dirty = false
					r.Count("signatures_via_Blind(reader)", 1)
				case 6:
					if err := ver.Verify(m0, md0, ref.sig); err != nil {
						fail("honest signature refused on a reused verifier", err.Error())
					}
					r.Count("verify_good", 1)
				case 7:
					if err := ver.Verify(m0, md0, badSig); err == nil {
						fail("altered signature accepted on a reused verifier", "flipped bit 13")
					}
					r.Count("verify_bad", 1)
				}
			})
			if p {
				fail("panic:"+verifmc.PanicClass(what), what)
				return
			}
		}
	})
	r.State(total)
	r.Sample(map[string]string{"case": k.name + "/[Hash.Write(64B),Hash.Sum,FixedBlind+Sign+Finalize(m0)]", "oracle": "byte equality with fresh objects + crypto/rsa oracle + fresh Verifier"})
	r.RequireCounter("signatures_compared_with_fresh", 3*64)
	r.RequireCounter("signatures_via_Blind(reader)", 3*64)
	r.RequireCounter("sign_after_dirty_hash", 64)
	r.RequireCounter("verify_bad", 3*64)
}

// TestVerifC18_pb_state: every operation sequence of length 1..4 on ONE VerifierState between FixedBlind and the
// final Finalize: the accessors and a failed or repeated Finalize must not change what the state finalises to.
func TestVerifC18_pb_state(t *testing.T) {
	r := verifmc.Start(t, "C18", "pb_state")
	defer r.Finish()
	vs := &c18Sink{}
	defer vs.Flush(r)
	opNames := []string{"CopyBlind", "CopySalt", "Finalize(good)", "Finalize(altered)", "Finalize(good) on a copy of the state"}
	r.Rule("safe-prime key 0: FixedBlind(m0,md0,fixed salt,fixed blind), one BlindSign, then all sequences of length 1..4 over {CopyBlind, CopySalt, Finalize(honest blind signature), " +
		"Finalize(bit-flipped blind signature), Finalize on a value copy of the state} on the one VerifierState, and a closing Finalize: CopyBlind = the given blind and CopySalt = the given salt at every call, " +
		"every Finalize(good) byte-identical to the signature fresh objects give and valid for crypto/rsa under the derived key, every Finalize(altered) refused; non-trivial = distinct sequence")
	r.Set("alphabet", opNames)
	r.Set("depth", 4)
	k := c18pKeys(t, r)[0]
	m0, md0 := []byte("state-0"), []byte("md")
	salt := c18Rep(0x03, 48)
	blind := c18pBlinds(k, false)[2].r
	rInv := new(big.Int).ModInverse(blind, k.sk.N)
	ref := c18pRun(k, m0, md0, salt, blind, false)
	if ref.stage != "" || !k.oracle(m0, md0, ref.sig) {
		vs.Violation("C18|partiallyblindrsa.state|fresh objects do not produce a valid signature", k.name, fmt.Sprintf("stage %q err %v", ref.stage, ref.err), nil)
		return
	}
	signer, err := pb.NewSigner(k.sk, c18H)
	if err != nil {
		vs.Violation("C18|partiallyblindrsa.NewSigner|refuses a safe-prime key", k.name, err.Error(), nil)
		return
	}
	goodBS, err := signer.BlindSign(ref.blinded, md0)
	if err != nil {
		vs.Violation("C18|partiallyblindrsa.state|BlindSign fails on an honest blinded message", k.name, err.Error(), nil)
		return
	}
	badBS := verifmc.Flip(goodBS, 13)
	nOps := len(opNames)
	var seqs [][]int
	for L := 1; L <= 4; L++ {
		n := 1
		for i := 0; i < L; i++ {
			n *= nOps
		}
		for x := 0; x < n; x++ {
			q, y := make([]int, L), x
			for i := L - 1; i >= 0; i-- {
				q[i] = y % nOps
				y /= nOps
			}
			seqs = append(seqs, q)
		}
	}
	verifmc.ParallelFor(len(seqs), func(hi int) {
		seq := seqs[hi]
		names := make([]string, len(seq))
		for i, op := range seq {
			names[i] = opNames[op]
		}
		id := fmt.Sprintf("%s/[%s]", k.name, strings.Join(names, ","))
		if !r.Want(id) {
			return
		}
		r.Trace(1)
		r.Distinct(id)
		ver := pb.NewVerifier(&k.sk.PublicKey, c18H)
		blinded, state, err := ver.FixedBlind(m0, md0, salt, blind.Bytes(), rInv.Bytes())
		if err != nil || !bytes.Equal(blinded, ref.blinded) {
			vs.Violation("C18|partiallyblindrsa.state|FixedBlind differs from fresh objects", id, fmt.Sprint(err), nil)
			return
		}
		all := append(append([]int{}, seq...), 2) // closing Finalize(good)
		for step, op := range all {
			opn := opNames[op]
			at := fmt.Sprintf("%s step %d (%s)", id, step+1, opn)
			fail := func(class, what string) {
				vs.Violation(fmt.Sprintf("C18|partiallyblindrsa.state|%s|%s", class, opn), id, at+": "+what,
					map[string]string{"key": k.name, "history": strings.Join(names[:min(step+1, len(names))], ",")})
			}
			r.Transition(1)
			r.Eval(1)
			p, what := verifmc.Try(func() {
				switch op {
				case 0:
					if got := new(big.Int).SetBytes(state.CopyBlind()); got.Cmp(blind) != 0 {
						fail("CopyBlind is not the blind the state was made with", "got "+got.Text(16))
					}
					r.Count("copyblind_calls", 1)
				case 1:
					if got := state.CopySalt(); !bytes.Equal(got, salt) {
						fail("CopySalt is not the salt the state was made with", "got "+verifmc.Hex(got))
					}
				case 2, 4:
					st := state
					if op == 4 {
						cp := state
						st = cp
					}
					sig, err := st.Finalize(goodBS)
					if err != nil {
						fail("Finalize refuses the honest blind signature after this history", err.Error())
						return
					}
					if !bytes.Equal(sig, ref.sig) {
						fail("Finalize result differs from fresh objects", fmt.Sprintf("sig %s, fresh objects give %s", verifmc.Hex(sig), verifmc.Hex(ref.sig)))
					}
					if !k.oracle(m0, md0, sig) {
						fail("signature not valid RSASSA-PSS under the derived key (crypto/rsa)", "sig "+verifmc.Hex(sig))
					}
					r.Count("finalize_good", 1)
				case 3:
					if _, err := state.Finalize(badBS); err == nil {
						fail("Finalize accepts an altered blind signature", "flipped bit 13")
					}
					r.Count("finalize_altered", 1)
				}
			})
			if p {
				fail("panic:"+verifmc.PanicClass(what), what)
				return
			}
		}
	})
	r.State(len(seqs))
	r.Sample(map[string]string{"case": k.name + "/[CopyBlind,Finalize(altered),CopyBlind]", "oracle": "accessors equal the given values; Finalize byte-identical to fresh objects + crypto/rsa oracle"})
	r.RequireCounter("copyblind_calls", 100)
	r.RequireCounter("finalize_good", 700)
	r.RequireCounter("finalize_altered", 100)
}

// ---------------------------------------------------------------------------------------------

// TestVerifC18_pb_lengths: length alphabet for metadata and message (field-width boundaries of the 4-byte length
// prefix of msg_prime = "msg" || I2OSP(len(info),4) || info || msg), and separation of metadata values that differ
// only beyond byte 65535, only in length, or only in where the metadata/message boundary lies. The signed input and
// the derived exponent are rebuilt by verifref/pss (FrameMessage, DeriveExponent); crypto/rsa decides validity.
func TestVerifC18_pb_lengths(t *testing.T) {
	r := verifmc.Start(t, "C18", "pb_lengths")
	defer r.Finish()
	vs := &c18Sink{}
	defer vs.Flush(r)
	mdLens := []int{0, 1, 8, 255, 256, 257, 65535, 65536, 65537, 70000, 131072}
	msgLens := []int{0, 1, 255, 256, 65536}
	r.Rule("safe-prime keys (quick: key 0) x metadata lengths {0,1,8,255,256,257,65535,65536,65537,70000,131072} x message lengths {0,1,255,256,65536} (bytes of verifmc.Msg, so shorter " +
		"values are prefixes of longer ones), FixedBlind(salt 02^48, blind shakeA)+BlindSign+Finalize: signature accepted by the library, by the crypto/rsa oracle on the independently framed input " +
		"under the independently derived exponent (byte equality with the reference signature is counted, not demanded); plus metadata pairs that differ only in a byte beyond offset 65535, only in length (m vs m||00), or only " +
		"in the metadata/message boundary: Signer.BlindSign on a fixed unit must differ (different derived keys) and the signature for one must be refused for the other by library and oracle alike; " +
		"non-trivial = distinct (key, metadata length, message length) / (key, pair)")
	r.Set("metadata_lengths", mdLens)
	r.Set("message_lengths", msgLens)
	keys := c18pKeys(t, r)
	if !r.Thorough() {
		keys = keys[:1]
	}
	r.Set("keys", c18pNames(keys))
	salt := c18Rep(0x02, 48)
	type job struct {
		k      *c18pKey
		ml, dl int
	}
	var jobs []job
	for _, k := range keys {
		for _, dl := range mdLens {
			for _, ml := range msgLens {
				jobs = append(jobs, job{k, ml, dl})
			}
		}
	}
	verifmc.ParallelFor(len(jobs), func(ji int) {
		j := jobs[ji]
		k := j.k
		id := fmt.Sprintf("%s/mdlen=%d/msglen=%d", k.name, j.dl, j.ml)
		if !r.Want(id) || r.Expired() {
			return
		}
		msg, md := verifmc.Msg(j.ml), verifmc.Msg(j.dl)
		cls := "metadata below 65536 bytes"
		if j.dl >= 65536 {
			cls = "metadata of 65536 bytes or more"
		}
		vio := func(entry, class, what string) {
			vs.Violation(fmt.Sprintf("C18|%s|%s|%s", entry, class, cls), id, id+": "+what, map[string]interface{}{"key": k.name, "metadata": fmt.Sprintf("verifmc.Msg(%d)", j.dl), "msg": fmt.Sprintf("verifmc.Msg(%d)", j.ml), "salt": "02^48", "blind": "shakeA"})
		}
		var f c18pFlow
		if p, what := verifmc.Try(func() { f = c18pRun(k, msg, md, salt, c18pBlinds(k, false)[2].r, false) }); p {
			vio("partiallyblindrsa.protocol", "panic:"+verifmc.PanicClass(what), what)
			return
		}
		r.Eval(1)
		if f.stage != "" {
			vio("partiallyblindrsa."+f.stage, "honest flow fails", fmt.Sprintf("%s returned %v", f.stage, f.err))
			return
		}
		r.Distinct(id)
		r.Count("flows_completed", 1)
		if j.dl >= 65536 {
			r.Count("flows_with_metadata_ge_65536", 1)
		}
		if err := c18pVerify(k, msg, md, f.sig); err != nil {
			vio("partiallyblindrsa.Verifier.Verify", "honest signature refused", err.Error())
		}
		if !k.oracle(msg, md, f.sig) {
			vio("partiallyblindrsa.VerifierState.Finalize", "signature not valid RSASSA-PSS of \"msg\"||len32(metadata)||metadata||msg under the derived key (crypto/rsa)", "sig="+verifmc.Hex(f.sig))
		} else {
			r.Count("accepted_by_crypto/rsa_oracle", 1)
		}
		em, _ := pss.Encode(c18H, pss.Sum(c18H, pss.FrameMessage(msg, md)), k.rk.EmBits(), salt)
		if bytes.Equal(f.sig, k.derived(md).SignEM(em)) {
			r.Count("sig_equals_reference_signature", 1) // informational: the statement demands validity, not the use of the supplied salt
		}
		if ji%11 == 0 {
			r.Sample(map[string]string{"case": id, "sig": verifmc.Hex(f.sig)})
		}
	})
	// separation pairs
	type pair struct {
		name       string
		mdA, mdB   []byte
		msgA, msgB []byte
	}
	big70 := verifmc.Msg(70000)
	x := []byte{0x5a, 0x00, 0x01}
	base := verifmc.Msg(300)
	pairs := []pair{
		{name: "byte 65536 flipped", mdA: big70, mdB: verifmc.Flip(big70, 65536*8)},
		{name: "last byte (69999) flipped", mdA: big70, mdB: verifmc.Flip(big70, 69999*8+7)},
		{name: "byte 65535 flipped", mdA: big70, mdB: verifmc.Flip(big70, 65535*8)},
	}
	for _, n := range []int{0, 1, 255, 65535, 65536} {
		m := verifmc.Msg(n)
		pairs = append(pairs, pair{name: fmt.Sprintf("length only: Msg(%d) vs Msg(%d)||00", n, n), mdA: m, mdB: append(append([]byte{}, m...), 0)})
	}
	pairs = append(pairs,
		pair{name: "length only: Msg(65536) vs Msg(131072)[:65537]", mdA: verifmc.Msg(65536), mdB: verifmc.Msg(65537)},
		pair{name: "length only: 65536 zero bytes vs empty", mdA: make([]byte, 65536), mdB: []byte{}},
		pair{name: "length only: 65537 zero bytes vs 1 zero byte", mdA: make([]byte, 65537), mdB: []byte{0}})
	for _, n := range []int{0, 300, 65535, 65536} {
		m := verifmc.Msg(n)
		pairs = append(pairs, pair{name: fmt.Sprintf("boundary: (md=Msg(%d)||x, msg) vs (md=Msg(%d), x||msg)", n, n),
			mdA: append(append([]byte{}, m...), x...), msgA: base, mdB: m, msgB: append(append([]byte{}, x...), base...)})
	}
	type pjob struct {
		k *c18pKey
		p pair
	}
	var pjobs []pjob
	for _, k := range keys {
		for _, p := range pairs {
			pjobs = append(pjobs, pjob{k, p})
		}
	}
	verifmc.ParallelFor(len(pjobs), func(pi int) {
		k, p := pjobs[pi].k, pjobs[pi].p
		id := fmt.Sprintf("%s/pair/%s", k.name, p.name)
		if !r.Want(id) || r.Expired() {
			return
		}
		if p.msgA == nil {
			p.msgA, p.msgB = base, base
		}
		vio := func(entry, class, what string) {
			vs.Violation(fmt.Sprintf("C18|%s|%s", entry, class), id, id+": "+what, map[string]string{"key": k.name, "pair": p.name})
		}
		r.Eval(1)
		r.Distinct(id)
		blind := c18pBlinds(k, false)[2].r
		var fa, fb c18pFlow
		if pn, what := verifmc.Try(func() {
			fa = c18pRun(k, p.msgA, p.mdA, salt, blind, false)
			fb = c18pRun(k, p.msgB, p.mdB, salt, blind, false)
		}); pn {
			vio("partiallyblindrsa.protocol", "panic:"+verifmc.PanicClass(what), what)
			return
		}
		if fa.stage != "" || fb.stage != "" {
			vio("partiallyblindrsa.protocol", "honest flow fails", fmt.Sprintf("A: %s %v; B: %s %v", fa.stage, fa.err, fb.stage, fb.err))
			return
		}
		for _, y := range []struct {
			side     string
			msg, md  []byte
			sig      []byte
			omsg, om []byte
		}{{"A", p.msgA, p.mdA, fa.sig, p.msgB, p.mdB}, {"B", p.msgB, p.mdB, fb.sig, p.msgA, p.mdA}} {
			if !k.oracle(y.msg, y.md, y.sig) {
				vio("partiallyblindrsa.VerifierState.Finalize", "signature not valid RSASSA-PSS of \"msg\"||len32(metadata)||metadata||msg under the derived key (crypto/rsa)|pair", "side "+y.side)
			}
			lib := c18pVerify(k, y.omsg, y.om, y.sig) == nil
			orc := k.oracle(y.omsg, y.om, y.sig)
			if orc {
				t.Fatalf("%s: the reference oracle accepts the signature of side %s for the other (message, metadata)", id, y.side)
			}
			if lib {
				vio("partiallyblindrsa.Verifier.Verify", "signature accepted for another (message, metadata)", "signature of side "+y.side+" verifies for the other side")
			} else {
				r.Count("cross_verification_refused", 1)
			}
		}
		if bytes.Equal(fa.sig, fb.sig) {
			vio("partiallyblindrsa.protocol", "two different (message, metadata) pairs give the same signature", "sig="+verifmc.Hex(fa.sig))
		}
		if !bytes.Equal(p.mdA, p.mdB) {
			// different metadata => different derived keys, observed through the signer on a fixed unit
			signer, err := pb.NewSigner(k.sk, c18H)
			if err != nil {
				vio("partiallyblindrsa.NewSigner", "refuses a safe-prime key", err.Error())
				return
			}
			u := pss.I2OSP(new(big.Int).SetBytes(verifmc.Shake("c18-plen-unit"+k.name, k.rk.K()-1)), k.rk.K())
			sa, ea := signer.BlindSign(u, p.mdA)
			sb, eb := signer.BlindSign(u, p.mdB)
			if ea != nil || eb != nil {
				vio("partiallyblindrsa.Signer.BlindSign", "refuses an input below the modulus", fmt.Sprint(ea, eb))
				return
			}
			if k.derived(p.mdA).E.Cmp(k.derived(p.mdB).E) == 0 {
				t.Fatalf("%s: reference derives the same exponent for both metadata", id)
			}
			if bytes.Equal(sa, sb) {
				vio("partiallyblindrsa.Signer.BlindSign", "different metadata give the same derived key", "BlindSign(unit) identical for both metadata")
			} else {
				r.Count("derived_keys_differ", 1)
			}
			for _, z := range []struct {
				s  []byte
				md []byte
			}{{sa, p.mdA}, {sb, p.mdB}} {
				m, ok := k.derived(z.md).RSAVP1(new(big.Int).SetBytes(z.s))
				if !ok || m.Cmp(new(big.Int).SetBytes(u)) != 0 {
					vio("partiallyblindrsa.Signer.BlindSign", "result is not the e'-th root of the input|pair", "metadata length "+fmt.Sprint(len(z.md)))
				}
			}
		}
	})
	r.RequireCounter("flows_completed", int64(len(jobs)))
	r.RequireCounter("flows_with_metadata_ge_65536", int64(len(keys)*4*5))
	r.RequireCounter("cross_verification_refused", int64(len(pjobs)*2))
	r.RequireCounter("derived_keys_differ", int64(len(pjobs)))
}
