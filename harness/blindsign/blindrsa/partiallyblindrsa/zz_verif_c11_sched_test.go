//go:build verif

package partiallyblindrsa_test

// C11 (schedules): one partially-blind-RSA Verifier / Signer used by several goroutines.

import (
	"crypto"
	"os"
	"testing"

	pb "github.com/cloudflare/circl/blindsign/blindrsa/partiallyblindrsa"
	"github.com/cloudflare/circl/internal/verifmc"
	"github.com/cloudflare/circl/internal/verifmc/sched"
	"github.com/cloudflare/circl/internal/verifref/pss"
)

type c11PbShared struct {
	ver    pb.Verifier
	signer pb.Signer
}

func c11PbScenarios(t testing.TB) []sched.Scenario {
	sk, err := pss.SafePrimeKey(0)
	if err != nil {
		t.Fatalf("safe-prime fixture: %v", err)
	}
	h := crypto.SHA384
	fresh := func() interface{} {
		s, err := pb.NewSigner(sk, h)
		if err != nil {
			panic(err)
		}
		return &c11PbShared{pb.NewVerifier(&sk.PublicKey, h), s}
	}
	salt := verifmc.Shake("c11-pb-salt", h.Size())
	flow := func(msg string, md string) func(interface{}) interface{} {
		return func(sh interface{}) interface{} {
			s := sh.(*c11PbShared)
			two := pssBig(2)
			inv := pssInv(two, sk.PublicKey.N)
			blinded, st, err := s.ver.FixedBlind([]byte(msg), []byte(md), salt, two.Bytes(), inv.Bytes())
			if err != nil {
				return err
			}
			bs, err := s.signer.BlindSign(blinded, []byte(md))
			if err != nil {
				return err
			}
			sig, err := st.Finalize(bs)
			if err != nil {
				return err
			}
			if err := s.ver.Verify([]byte(msg), []byte(md), sig); err != nil {
				return err
			}
			return sig
		}
	}
	return []sched.Scenario{
		{Cost: 30, Name: "pbrsa/Flow(m0)||Flow(m1)", Setup: fresh, Threads: []func(interface{}) interface{}{flow("message zero", "md"), flow("message one, longer", "md")}},
		{Cost: 30, Name: "pbrsa/Flow(m0,md0)||Flow(m0,md1)", Setup: fresh, Threads: []func(interface{}) interface{}{flow("message zero", "md0"), flow("message zero", "md1")}},
	}
}

func TestVerifC11_sched_pbrsa(t *testing.T) {
	if os.Getenv("VERIF_CONFIG") != "sched" {
		t.Skip("runs only under the instrumented configuration")
	}
	r := verifmc.Start(t, "C11", "sched_pbrsa")
	defer r.Finish()
	r.Rule("every schedule up to the completed preemption bound of two complete blind-signature flows (FixedBlind, BlindSign, Finalize, Verify) on one shared Verifier and Signer; non-trivial = distinct scenario")
	sched.RunScenarios(r, c11PbScenarios(t), 2)
}

func TestVerifC11_race_pbrsa(t *testing.T) {
	if os.Getenv("VERIF_CONFIG") != "race" {
		t.Skip("runs only under -race")
	}
	r := verifmc.Start(t, "C11", "race_pbrsa")
	defer r.Finish()
	r.Rule("same scenario bodies on free-running goroutines under the race detector")
	sched.FreeRun(r, c11PbScenarios(t), r.Pick(10, 60))
}
