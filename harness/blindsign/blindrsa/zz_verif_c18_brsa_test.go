//go:build verif

package blindrsa_test

// C18 (blind RSA, RFC 9474 part): blind -> blind-sign -> finalise yields a standard
// RSASSA-PSS signature that crypto/rsa accepts, independent of the blind; every altered
// blind signature is refused by Finalize; the signer refuses out-of-range / wrong-length
// input; the package's own PSS verifier accepts exactly what rsa.VerifyPSS accepts.
//
// Everything goes through the public API. Randomness is supplied by a sequential
// reader whose bytes are (salt || I2OSP(r, k)), so salt and blind r are chosen by
// the harness (crypto/rand.Int has no MaybeReadByte, and r < N is accepted at the
// first draw); the reader fails when more is asked for, so no silent re-draw happens.

import (
	"bytes"
	"crypto"
	"crypto/rsa"
	_ "crypto/sha512"
	"errors"
	"fmt"
	"io"
	"math/big"
	"sort"
	"strings"
	"sync"
	"testing"

	"github.com/cloudflare/circl/blindsign/blindrsa"
	"github.com/cloudflare/circl/internal/verifmc"
	"github.com/cloudflare/circl/internal/verifref/pss"
)

const c18H = crypto.SHA384

type c18Key struct {
	name string
	sk   *rsa.PrivateKey
	rk   *pss.Key
	full bool // full product of the protocol alphabet
}

var (
	c18KeyOnce sync.Once
	c18KeyList []*c18Key
	c18KeyErr  error
)

// c18Keys: fixtures 1024/1025/1031 (full alphabet), generated 1026..1030 and 1032 (so that
// every residue of emBits mod 8 occurs), 2048; thorough adds 3072 and a generated 4096.
func c18Keys(t testing.TB, r *verifmc.Run) []*c18Key {
	c18KeyOnce.Do(func() {
		type spec struct {
			name string
			bits int // 0: PEM fixture
			full bool
		}
		th := r.Thorough()
		specs := []spec{{"rsa_1024", 0, true}, {"rsa_1025", 0, true}, {"rsa_1031", 0, true}}
		for _, b := range []int{1026, 1027, 1028, 1029, 1030, 1032} {
			specs = append(specs, spec{fmt.Sprintf("rsagen_%d", b), b, th})
		}
		specs = append(specs, spec{"rsa_2048", 0, th})
		if th {
			specs = append(specs, spec{"rsa_3072", 0, true}, spec{"rsagen_4096", 4096, true})
		}
		out := make([]*c18Key, len(specs))
		errs := make([]error, len(specs))
		verifmc.ParallelFor(len(specs), func(i int) {
			s := specs[i]
			var sk *rsa.PrivateKey
			var err error
			if s.bits == 0 {
				sk, err = pss.LoadPEM(s.name)
			} else {
				sk, err = pss.GenKey(s.bits, "verif-c18")
			}
			if err != nil {
				errs[i] = fmt.Errorf("%s: %v", s.name, err)
				return
			}
			rk, err := pss.FromStd(sk)
			if err != nil {
				errs[i] = err
				return
			}
			out[i] = &c18Key{s.name, sk, rk, s.full}
		})
		for _, e := range errs {
			if e != nil {
				c18KeyErr = e
			}
		}
		c18KeyList = out
	})
	if c18KeyErr != nil {
		t.Fatalf("key fixtures: %v", c18KeyErr)
	}
	return c18KeyList
}

func c18KeyNames(ks []*c18Key) []string {
	var s []string
	for _, k := range ks {
		s = append(s, fmt.Sprintf("%s(%d bits, emBits%%8=%d)", k.name, k.sk.N.BitLen(), (k.sk.N.BitLen()-1)%8))
	}
	return s
}

// c18Seq is a reader over fixed bytes that fails (and remembers it) when exhausted.
type c18Seq struct {
	data []byte
	off  int
	over bool
}

func (s *c18Seq) Read(p []byte) (int, error) {
	if s.off >= len(s.data) {
		s.over = true
		return 0, io.ErrUnexpectedEOF
	}
	n := copy(p, s.data[s.off:])
	s.off += n
	return n, nil
}

// c18Sink buffers violations found by parallel workers and hands them to the engine in a fixed
// order, so that the case retained per key does not depend on scheduling.
type c18Sink struct {
	mu sync.Mutex
	v  []c18V
}

type c18V struct {
	key, id, what string
	replay        interface{}
}

func (s *c18Sink) Violation(key, id, what string, replay interface{}) {
	s.mu.Lock()
	s.v = append(s.v, c18V{key, id, what, replay})
	s.mu.Unlock()
}

func (s *c18Sink) Flush(r *verifmc.Run) {
	sort.SliceStable(s.v, func(i, j int) bool {
		if s.v[i].key != s.v[j].key {
			return s.v[i].key < s.v[j].key
		}
		return s.v[i].id < s.v[j].id
	})
	for _, x := range s.v {
		r.Violation(x.key, x.id, x.what, x.replay)
	}
}

func c18Rep(b byte, n int) []byte { return bytes.Repeat([]byte{b}, n) }

var c18Variants = []blindrsa.Variant{
	blindrsa.SHA384PSSRandomized, blindrsa.SHA384PSSZeroRandomized,
	blindrsa.SHA384PSSDeterministic, blindrsa.SHA384PSSZeroDeterministic,
}

func c18Salted(v blindrsa.Variant) bool {
	return v == blindrsa.SHA384PSSRandomized || v == blindrsa.SHA384PSSDeterministic
}

func c18Randomized(v blindrsa.Variant) bool {
	return v == blindrsa.SHA384PSSRandomized || v == blindrsa.SHA384PSSZeroRandomized
}

func c18VName(v blindrsa.Variant) string { return strings.TrimPrefix(v.String(), "RSABSSA-SHA384-") }

var c18Msgs = [][]byte{{}, []byte("a"), verifmc.Msg(200)}

type c18Blind struct {
	name string
	r    *big.Int
}

// c18Blinds: the blind alphabet for one modulus. Every member is in [0, N) and, except "0"
// (which the library replaces by 1) and "p" (not invertible), a unit mod N.
func c18Blinds(k *c18Key, full bool) (units []c18Blind, zero, nonUnit c18Blind) {
	N := k.sk.N
	sub := func(d int64) *big.Int { return new(big.Int).Sub(N, big.NewInt(d)) }
	sh := func(l string) *big.Int {
		x := new(big.Int).SetBytes(verifmc.Shake("c18-blind-"+l+k.name, k.rk.K()+8))
		return x.Mod(x, N)
	}
	pat := new(big.Int).SetBytes(c18Rep(0x55, k.rk.K()))
	pat.Mod(pat, N)
	all := []c18Blind{{"1", big.NewInt(1)}, {"N-2", sub(2)}, {"shakeA", sh("A")},
		{"2", big.NewInt(2)}, {"N-1", sub(1)}, {"2^(bits-1)", new(big.Int).Lsh(big.NewInt(1), uint(N.BitLen()-1))},
		{"0x55..", pat}, {"shakeB", sh("B")}}
	if !full {
		all = all[:3]
	}
	g := new(big.Int)
	for _, b := range all {
		if g.GCD(nil, nil, b.r, N).Cmp(big.NewInt(1)) == 0 {
			units = append(units, b)
		}
	}
	return units, c18Blind{"0", big.NewInt(0)}, c18Blind{"p", k.rk.P}
}

type c18Flow struct {
	prepared, blinded, blindSig, sig []byte
	state                            blindrsa.State
	client                           blindrsa.Client
	stage                            string // where it failed ("" = completed)
	err                              error
	readerOver                       bool
}

// c18Run performs Prepare, Blind, BlindSign, Finalize with the given choices.
func c18Run(k *c18Key, v blindrsa.Variant, msg, prep, salt []byte, r *big.Int) (f c18Flow) {
	client, err := blindrsa.NewClient(v, &k.sk.PublicKey)
	if err != nil {
		f.stage, f.err = "NewClient", err
		return
	}
	return c18RunOn(client, blindrsa.NewSigner(k.sk), k, msg, prep, salt, r)
}

// c18RunOn is c18Run on given (possibly already used) client and signer objects.
func c18RunOn(client blindrsa.Client, signer blindrsa.Signer, k *c18Key, msg, prep, salt []byte, r *big.Int) (f c18Flow) {
	var err error
	f.client = client
	pr := &c18Seq{data: prep} // empty for the deterministic variants: they must not read at all
	if f.prepared, err = f.client.Prepare(pr, msg); err != nil {
		f.stage, f.err = "Prepare", err
		return
	}
	rd := &c18Seq{data: append(append([]byte{}, salt...), pss.I2OSP(r, k.rk.K())...)}
	f.blinded, f.state, err = f.client.Blind(rd, f.prepared)
	f.readerOver = rd.over || rd.off != len(rd.data)
	if err != nil {
		f.stage, f.err = "Blind", err
		return
	}
	if f.blindSig, err = signer.BlindSign(f.blinded); err != nil {
		f.stage, f.err = "BlindSign", err
		return
	}
	if f.sig, err = f.client.Finalize(f.state, f.blindSig); err != nil {
		f.stage, f.err = "Finalize", err
		return
	}
	return
}

func c18OptsGo(v blindrsa.Variant) *rsa.PSSOptions {
	if c18Salted(v) {
		return &rsa.PSSOptions{Hash: c18H, SaltLength: c18H.Size()} // explicit 48: any other salt length is refused
	}
	return &rsa.PSSOptions{Hash: c18H, SaltLength: rsa.PSSSaltLengthAuto}
}

// ---------------------------------------------------------------------------------------------

// TestVerifC18_refcheck binds the reference encoder / textbook RSA / key fixtures to crypto/rsa.
// Failures here are t.Fatal (broken check), never alarms.
func TestVerifC18_refcheck(t *testing.T) {
	r := verifmc.Start(t, "C18", "refcheck")
	defer r.Finish()
	r.Rule("reference EMSA-PSS encoder + CRT signing must equal rsa.SignPSS byte for byte under a constant salt reader, for every key fixture, " +
		"salt lengths {0(ref only),1,47,48,49,max} and salt bytes {01,02,7F,A5}; non-trivial = distinct (key, salt length, salt byte, message)")
	keys := c18Keys(t, r)
	r.Set("keys", c18KeyNames(keys))
	resid := map[int]bool{}
	var mu sync.Mutex
	var fatal []string
	fail := func(f string, a ...interface{}) {
		mu.Lock()
		fatal = append(fatal, fmt.Sprintf(f, a...))
		mu.Unlock()
	}
	for _, k := range keys {
		resid[k.rk.EmBits()%8] = true
	}
	verifmc.ParallelFor(len(keys), func(i int) {
		k := keys[i]
		if k.rk.N.Cmp(k.sk.N) != 0 || k.rk.D.Cmp(k.sk.D) != 0 && new(big.Int).Exp(new(big.Int).Exp(big.NewInt(7), k.rk.D, k.sk.N), k.rk.E, k.sk.N).Cmp(big.NewInt(7)) != 0 {
			fail("%s: reference key inconsistent with crypto/rsa key", k.name)
			return
		}
		if strings.HasPrefix(k.name, "rsagen_") && fmt.Sprintf("rsagen_%d", k.sk.N.BitLen()) != k.name {
			fail("%s: generated modulus has %d bits", k.name, k.sk.N.BitLen())
		}
		// RSAVP1(RSASP1(m)) = m
		for _, m := range []*big.Int{big.NewInt(0), big.NewInt(1), big.NewInt(2), new(big.Int).Sub(k.sk.N, big.NewInt(1))} {
			s := k.rk.RSASP1(m)
			if m2, ok := k.rk.RSAVP1(s); !ok || m2.Cmp(m) != 0 {
				fail("%s: RSAVP1(RSASP1(%v)) != m", k.name, m)
			}
			r.Eval(1)
		}
		maxSalt := k.rk.EmLen() - c18H.Size() - 2
		for mi, msg := range c18Msgs {
			digest := pss.Sum(c18H, msg)
			for _, sl := range []int{0, 1, 47, 48, 49, maxSalt} {
				for _, b := range []byte{0x01, 0x02, 0x7f, 0xa5} {
					salt := c18Rep(b, sl)
					em, err := pss.Encode(c18H, digest, k.rk.EmBits(), salt)
					if err != nil {
						fail("%s: reference encode sLen=%d: %v", k.name, sl, err)
						continue
					}
					sig := k.rk.SignEM(em)
					r.Eval(1)
					r.Distinct(k.name, sl, b, mi)
					if err := rsa.VerifyPSS(&k.sk.PublicKey, c18H, digest, sig, &rsa.PSSOptions{Hash: c18H, SaltLength: rsa.PSSSaltLengthAuto}); err != nil {
						fail("%s: rsa.VerifyPSS(auto) refuses the reference signature sLen=%d: %v", k.name, sl, err)
					}
					if sl > 0 {
						if err := rsa.VerifyPSS(&k.sk.PublicKey, c18H, digest, sig, &rsa.PSSOptions{Hash: c18H, SaltLength: sl}); err != nil {
							fail("%s: rsa.VerifyPSS(sLen=%d) refuses the reference signature: %v", k.name, sl, err)
						}
						std, err := rsa.SignPSS(verifmc.ConstReader(b), k.sk, c18H, digest, &rsa.PSSOptions{Hash: c18H, SaltLength: sl})
						if err != nil || !bytes.Equal(std, sig) {
							fail("%s: reference signature differs from rsa.SignPSS (sLen=%d salt byte %02x): err=%v", k.name, sl, b, err)
						} else {
							r.Count("equals_rsa.SignPSS", 1)
						}
						other := sl + 1
						if other > maxSalt {
							other = sl - 1
						}
						if rsa.VerifyPSS(&k.sk.PublicKey, c18H, digest, sig, &rsa.PSSOptions{Hash: c18H, SaltLength: other}) == nil {
							fail("%s: rsa.VerifyPSS(sLen=%d) accepts a signature with salt length %d", k.name, other, sl)
						}
					} else if rsa.VerifyPSS(&k.sk.PublicKey, c18H, digest, sig, &rsa.PSSOptions{Hash: c18H, SaltLength: 48}) == nil {
						fail("%s: rsa.VerifyPSS(sLen=48) accepts a zero-salt signature", k.name)
					}
				}
			}
			if _, err := pss.Encode(c18H, digest, k.rk.EmBits(), make([]byte, maxSalt+1)); err == nil {
				fail("%s: reference encoder accepts an over-long salt", k.name)
			}
		}
		// the oracle's treatment of a signature representative not below N (RFC 8017 RSAVP1 step 1)
		digest := pss.Sum(c18H, []byte("a"))
		em, _ := pss.Encode(c18H, digest, k.rk.EmBits(), c18Rep(1, 48))
		s := new(big.Int).SetBytes(k.rk.SignEM(em))
		s.Add(s, k.sk.N)
		if s.BitLen() <= 8*k.rk.K() {
			if rsa.VerifyPSS(&k.sk.PublicKey, c18H, digest, pss.I2OSP(s, k.rk.K()), &rsa.PSSOptions{Hash: c18H, SaltLength: 48}) == nil {
				fail("%s: rsa.VerifyPSS accepts s+N", k.name)
			}
			r.Count("oracle_refuses_s_plus_N", 1)
		}
	})
	sort.Strings(fatal)
	if len(fatal) > 0 {
		t.Fatalf("reference not bound to crypto/rsa (%d problems), first: %s", len(fatal), fatal[0])
	}
	var rs []int
	for x := range resid {
		rs = append(rs, x)
	}
	sort.Ints(rs)
	r.Set("emBits_mod_8_residues", rs)
	if len(rs) != 8 {
		t.Fatalf("key fixtures cover emBits mod 8 residues %v, want all 8", rs)
	}
	r.RequireCounter("equals_rsa.SignPSS", int64(len(keys)*3*5*4))
	r.RequireCounter("oracle_refuses_s_plus_N", 6)
}

// ---------------------------------------------------------------------------------------------

type c18Group struct {
	k               *c18Key
	v               blindrsa.Variant
	mi              int
	prep, salt      []byte
	prepName, sName string
	blinds          []c18Blind
	zero, nonUnit   c18Blind
}

func (g *c18Group) id() string {
	return fmt.Sprintf("%s/%s/msg%d/prep=%s/salt=%s", g.k.name, c18VName(g.v), g.mi, g.prepName, g.sName)
}

// TestVerifC18_protocol: the full product keys x variants x messages x preparation randomness x salts x blinds.
func TestVerifC18_protocol(t *testing.T) {
	r := verifmc.Start(t, "C18", "protocol")
	defer r.Finish()
	vs := &c18Sink{}
	defer vs.Flush(r) // runs before Finish
	r.Rule("product of key fixtures x 4 variants x messages {empty,'a',200B} x preparation prefix {01,02,7F}^32 (+ SHAKE bytes in thorough; randomised variants) x " +
		"salt {01,02,7F}^48 (+ SHAKE bytes in thorough; salted variants) x blinds r {1,N-2,shakeA,2,N-1,2^(bits-1),0x55..,shakeB} plus r=0 and r=p; reduced keys use " +
		"prefix {01}, salts {01,7F}, blinds {1,N-2,shakeA}; non-trivial = distinct (key,variant,message,prefix,salt,blind) whose flow completed")
	keys := c18Keys(t, r)
	r.Set("keys", c18KeyNames(keys))
	type rnd struct {
		name string
		b    []byte
	}
	alpha := func(n int) []rnd {
		a := []rnd{{"01", c18Rep(0x01, n)}, {"02", c18Rep(0x02, n)}, {"7f", c18Rep(0x7f, n)}}
		if r.Thorough() {
			a = append(a, rnd{"shake", verifmc.Shake(fmt.Sprintf("c18-rnd-%d", n), n)}) // non-constant bytes
		}
		return a
	}
	prepAlpha, saltAlpha := alpha(32), alpha(48)
	var groups []*c18Group
	reduced := 0
	for _, k := range keys {
		if !k.full {
			reduced++
		}
		units, zero, nonUnit := c18Blinds(k, k.full)
		for _, v := range c18Variants {
			preps := []rnd{{"-", nil}}
			if c18Randomized(v) {
				preps = prepAlpha
				if !k.full {
					preps = prepAlpha[:1]
				}
			}
			salts := []rnd{{"-", nil}}
			if c18Salted(v) {
				salts = saltAlpha
				if !k.full {
					salts = []rnd{saltAlpha[0], saltAlpha[2]}
				}
			}
			for mi := range c18Msgs {
				for _, pr := range preps {
					for _, sa := range salts {
						groups = append(groups, &c18Group{k: k, v: v, mi: mi, blinds: units, zero: zero, nonUnit: nonUnit,
							prep: pr.b, prepName: pr.name, salt: sa.b, sName: sa.name})
					}
				}
			}
		}
	}
	r.Set("groups", len(groups))
	if reduced > 0 {
		r.NotExhaustive(fmt.Sprintf("%d of %d keys run the reduced prefix/salt/blind alphabet in this tier", reduced, len(keys)))
	}
	verifmc.ParallelFor(len(groups), func(gi int) {
		g := groups[gi]
		k := g.k
		if r.Expired() {
			return
		}
		msg := c18Msgs[g.mi]
		vio := func(entry, class, caseID, what string) {
			vs.Violation(fmt.Sprintf("C18|%s|%s|%s", entry, class, c18VName(g.v)), caseID, caseID+": "+what,
				map[string]string{"key": k.name, "variant": g.v.String(), "msg": verifmc.Hex(msg), "prep": verifmc.Hex(g.prep), "salt": verifmc.Hex(g.salt)})
		}
		var first []byte
		var firstName string
		blindedSeen := map[string]string{}
		list := append(append([]c18Blind{}, g.blinds...), g.zero, g.nonUnit)
		for _, b := range list {
			id := g.id() + "/r=" + b.name
			if !r.Want(id) {
				continue
			}
			var f c18Flow
			if p, what := verifmc.Try(func() { f = c18Run(k, g.v, msg, g.prep, g.salt, b.r) }); p {
				vio("blindrsa.protocol", "panic:"+verifmc.PanicClass(what), id, what)
				continue
			}
			r.Eval(1)
			if b.name == "p" {
				// r shares a factor with N: RFC 9474 Blind raises "blinding error"; any error is fine,
				// a completed flow would have to satisfy everything below.
				if f.stage == "Blind" && f.err != nil {
					r.Outcome("non-invertible blind refused")
					r.Count("noninvertible_blind_refused", 1)
					continue
				}
			}
			if f.stage != "" {
				r.Outcome("honest flow failed at " + f.stage)
				vio("blindrsa."+f.stage, "honest flow fails", id, fmt.Sprintf("%s returned %v", f.stage, f.err))
				continue
			}
			if f.readerOver {
				// the harness' assumption about the order/amount of randomness consumed does not hold
				r.Count("reader_layout_mismatch", 1)
			}
			r.Outcome("completed")
			r.Distinct(id)
			r.Count("flows_completed", 1)
			// shape of the prepared message (RFC 9474 Prepare: identity / 32 random bytes || msg)
			wantPrep := append(append([]byte{}, g.prep...), msg...)
			if !bytes.Equal(f.prepared, wantPrep) {
				vio("blindrsa.Client.Prepare", "prepared message is not prefix||msg", id, fmt.Sprintf("prepared=%s", verifmc.Hex(f.prepared)))
			}
			digest := pss.Sum(c18H, f.prepared)
			// the blinded message is EM * r^e mod N for the reference EM: confirms that the reader bytes were
			// used as (salt, r), i.e. that the declared blind alphabet is what was exercised (not an oracle).
			em, _ := pss.Encode(c18H, digest, k.rk.EmBits(), g.salt)
			rr := b.r
			if rr.Sign() == 0 {
				rr = big.NewInt(1)
			}
			z := new(big.Int).Exp(rr, k.rk.E, k.sk.N)
			z.Mul(z, new(big.Int).SetBytes(em)).Mod(z, k.sk.N)
			if bytes.Equal(f.blinded, pss.I2OSP(z, k.rk.K())) {
				r.Count("blinded_msg_matches_model", 1)
			}
			if prev, dup := blindedSeen[string(f.blinded)]; dup && !(b.name == "0" && prev == "1") {
				r.Count("blinds_not_distinct", 1)
			}
			blindedSeen[string(f.blinded)] = b.name
			if len(f.sig) != k.rk.K() {
				vio("blindrsa.Client.Finalize", "signature length != modulus length", id, fmt.Sprintf("len=%d", len(f.sig)))
				continue
			}
			// library verifier (both entry points)
			ver, err := blindrsa.NewVerifier(g.v, &k.sk.PublicKey)
			if err != nil {
				vio("blindrsa.NewVerifier", "honest flow fails", id, err.Error())
				continue
			}
			if err := f.client.Verify(f.prepared, f.sig); err != nil {
				vio("blindrsa.Client.Verify", "honest signature refused", id, err.Error())
			}
			if err := ver.Verify(f.prepared, f.sig); err != nil {
				vio("blindrsa.Verifier.Verify", "honest signature refused", id, err.Error())
			}
			// crypto/rsa
			if err := rsa.VerifyPSS(&k.sk.PublicKey, c18H, digest, f.sig, c18OptsGo(g.v)); err != nil {
				vio("blindrsa.Client.Finalize", "signature refused by rsa.VerifyPSS", id, fmt.Sprintf("sig=%s: %v", verifmc.Hex(f.sig), err))
			} else {
				r.Count("accepted_by_rsa.VerifyPSS", 1)
			}
			// zero-salt variants: the encoding has no freedom, so the encoded message is the reference one
			if !c18Salted(g.v) {
				got, ok := k.rk.RSAVP1(new(big.Int).SetBytes(f.sig))
				if !ok || got.Cmp(new(big.Int).SetBytes(em)) != 0 {
					vio("blindrsa.Client.Finalize", "PSSZero signature does not carry the zero-salt encoding", id, fmt.Sprintf("sig=%s", verifmc.Hex(f.sig)))
				} else {
					r.Count("zero_salt_encoding_exact", 1)
				}
			}
			// informational: same salt => same bytes as the textbook signature (and as rsa.SignPSS, by refcheck)
			if bytes.Equal(f.sig, k.rk.SignEM(em)) {
				r.Count("sig_equals_reference_signature", 1)
			}
			// independence of the blind
			if first == nil {
				first, firstName = f.sig, b.name
				if gi%97 == 0 {
					r.Sample(map[string]string{"case": id, "blinded_msg": verifmc.Hex(f.blinded), "sig": verifmc.Hex(f.sig)})
				}
			} else {
				r.Count("blind_pairs_compared", 1)
				if !bytes.Equal(first, f.sig) {
					vio("blindrsa.protocol", "signature depends on the blind", id, fmt.Sprintf("r=%s gives %s, r=%s gives %s", firstName, verifmc.Hex(first), b.name, verifmc.Hex(f.sig)))
				}
			}
		}
	})
	if !r.Replaying() {
		if n := r.Counter("reader_layout_mismatch"); n > 0 {
			r.NotExhaustive("randomness was not consumed as (salt, r): the declared blind alphabet was not exercised as such")
		}
		if r.Counter("blinded_msg_matches_model") != r.Counter("flows_completed") {
			r.NotExhaustive("blinded messages differ from EM*r^e for the harness-chosen (salt, r): blind alphabet not as declared")
		}
		if r.Counter("blinds_not_distinct") > 0 {
			r.NotExhaustive("two different blinds gave the same blinded message")
		}
	}
	r.RequireCounter("flows_completed", int64(len(groups)*3))
	r.RequireCounter("blind_pairs_compared", int64(len(groups)*2))
	r.RequireCounter("noninvertible_blind_refused", 1)
	r.RequireCounter("zero_salt_encoding_exact", int64(len(keys)*2*3*3))
}

// ---------------------------------------------------------------------------------------------

// TestVerifC18_finalize: every single-bit flip and the structured alterations of the blind signature.
func TestVerifC18_finalize(t *testing.T) {
	r := verifmc.Start(t, "C18", "finalize")
	defer r.Finish()
	vs := &c18Sink{}
	defer vs.Flush(r) // runs before Finish
	r.Rule("for every key x 4 variants x blinds {N-2, shakeA}: the honest blind signature z finalises; every single-bit flip of z (8k), z+-1, " +
		"{0,1,N-1,N,N+1,2^(8k)-1,N-z}, z+jN (j=1,2,max, when it fits in k bytes) and 6 wrong-length forms must make Finalize fail, and the " +
		"state must still finalise z afterwards; non-trivial = distinct (key,variant,blind,alteration)")
	keys := c18Keys(t, r)
	r.Set("keys", c18KeyNames(keys))
	type job struct {
		k *c18Key
		v blindrsa.Variant
		b c18Blind
	}
	var jobs []job
	for _, k := range keys {
		units, _, _ := c18Blinds(k, false)
		for _, v := range c18Variants {
			for _, b := range units[1:] {
				jobs = append(jobs, job{k, v, b})
			}
		}
	}
	verifmc.ParallelFor(len(jobs), func(ji int) {
		j := jobs[ji]
		k := j.k
		if r.Expired() {
			return
		}
		base := fmt.Sprintf("%s/%s/r=%s", k.name, c18VName(j.v), j.b.name)
		var prep, salt []byte
		if c18Randomized(j.v) {
			prep = c18Rep(0x02, 32)
		}
		if c18Salted(j.v) {
			salt = c18Rep(0x7f, 48)
		}
		f := c18Run(k, j.v, []byte("finalize"), prep, salt, j.b.r)
		if f.stage != "" {
			vs.Violation(fmt.Sprintf("C18|blindrsa.%s|honest flow fails|%s", f.stage, c18VName(j.v)), base, fmt.Sprintf("%s: %s returned %v", base, f.stage, f.err), nil)
			return
		}
		r.Count("honest_finalised", 1)
		try := func(a pss.Alt) {
			id := base + "/" + a.Class + "/" + a.Name
			if !r.Want(id) {
				return
			}
			r.Eval(1)
			r.Distinct(id)
			var sig []byte
			var err error
			if p, what := verifmc.Try(func() { sig, err = f.client.Finalize(f.state, a.Data) }); p {
				vs.Violation(fmt.Sprintf("C18|blindrsa.Client.Finalize|panic:%s|%s", verifmc.PanicClass(what), a.Class), id, id+": "+what, map[string]string{"blind_sig": verifmc.FullHex(a.Data)})
				return
			}
			r.Count("alt:"+a.Class, 1)
			if err == nil {
				r.Outcome("altered blind signature finalised: " + a.Class)
				same := "a different signature"
				if bytes.Equal(sig, f.sig) {
					same = "the same signature as the honest one"
				}
				vs.Violation(fmt.Sprintf("C18|blindrsa.Client.Finalize|accepts altered blind signature|%s", a.Class), id,
					fmt.Sprintf("%s: Finalize accepted a blind signature that differs from the signer's (%s) and returned %s", id, a.Name, same),
					map[string]string{"key": k.name, "honest_blind_sig": verifmc.FullHex(f.blindSig), "altered_blind_sig": verifmc.FullHex(a.Data)})
				return
			}
			r.Outcome("altered blind signature refused")
			if sig != nil {
				vs.Violation(fmt.Sprintf("C18|blindrsa.Client.Finalize|failed finalisation releases bytes|%s", a.Class), id, id+": error and non-nil signature", nil)
			}
		}
		verifmc.BitFlips(f.blindSig, func(bit int, data []byte) {
			try(pss.Alt{Class: "bit flip", Name: fmt.Sprintf("bit%d", bit), Data: data})
		})
		for _, a := range pss.IntAlts(k.sk.N, k.rk.K(), f.blindSig, "congruent not below modulus (z+jN)") {
			try(a)
		}
		for _, a := range pss.LenAlts(f.blindSig) {
			try(a)
		}
		if ji == 0 {
			r.Sample(map[string]string{"case": base, "honest_blind_sig": verifmc.Hex(f.blindSig), "alterations": "8k bit flips + integer + length forms"})
		}
		// the state is still usable
		if sig, err := f.client.Finalize(f.state, f.blindSig); err != nil || !bytes.Equal(sig, f.sig) {
			vs.Violation("C18|blindrsa.Client.Finalize|state unusable after failed finalisations|"+c18VName(j.v), base, fmt.Sprintf("%s: err=%v", base, err), nil)
		} else {
			r.Count("state_still_finalises", 1)
		}
	})
	r.RequireCounter("honest_finalised", int64(len(jobs)))
	r.RequireCounter("alt:bit flip", int64(len(jobs)*1024))
	r.RequireCounter("alt:congruent not below modulus (z+jN)", int64(len(keys)))
	r.RequireCounter("alt:wrong length", int64(len(jobs)*6))
}

// ---------------------------------------------------------------------------------------------

// TestVerifC18_signer: range and length checks of Signer.BlindSign.
func TestVerifC18_signer(t *testing.T) {
	r := verifmc.Start(t, "C18", "signer")
	defer r.Finish()
	vs := &c18Sink{}
	defer vs.Flush(r) // runs before Finish
	r.Rule("for every key: inputs {0,1,2,N-2,N-1 | N,N+1,2N-1,2N,2^(8k)-1, x+N for a unit x} as k bytes and {k-1,k+1 bytes (prepend/append 00), empty, 2k}: " +
		"refused iff not below N or wrong length; accepted results s satisfy s^e = input mod N; non-trivial = distinct (key,input)")
	keys := c18Keys(t, r)
	r.Set("keys", c18KeyNames(keys))
	verifmc.ParallelFor(len(keys), func(i int) {
		k := keys[i]
		K := k.rk.K()
		N := k.sk.N
		lim := new(big.Int).Lsh(big.NewInt(1), uint(8*K))
		signer := blindrsa.NewSigner(k.sk)
		type in struct {
			name string
			data []byte
			ok   int // 1 must be accepted, 0 must be refused, -1 no demand (0 is not a unit)
		}
		var ins []in
		addInt := func(name string, x *big.Int) {
			if x.Sign() < 0 || x.Cmp(lim) >= 0 {
				return
			}
			ok := 0
			if x.Cmp(N) < 0 {
				ok = 1
				if new(big.Int).GCD(nil, nil, x, N).Cmp(big.NewInt(1)) != 0 {
					ok = -1 // not a blinded message any client can produce; the statement demands nothing
				}
			}
			ins = append(ins, in{name, pss.I2OSP(x, K), ok})
		}
		unit := new(big.Int).SetBytes(verifmc.Shake("c18-signer-unit"+k.name, K-1))
		addInt("0", big.NewInt(0))
		addInt("1", big.NewInt(1))
		addInt("2", big.NewInt(2))
		addInt("unit", unit)
		addInt("N-2", new(big.Int).Sub(N, big.NewInt(2)))
		addInt("N-1", new(big.Int).Sub(N, big.NewInt(1)))
		addInt("N", N)
		addInt("N+1", new(big.Int).Add(N, big.NewInt(1)))
		addInt("N+2", new(big.Int).Add(N, big.NewInt(2)))
		addInt("unit+N", new(big.Int).Add(unit, N))
		addInt("2N-1", new(big.Int).Sub(new(big.Int).Lsh(N, 1), big.NewInt(1)))
		addInt("2N", new(big.Int).Lsh(N, 1))
		addInt("2^(8k)-1", new(big.Int).Sub(lim, big.NewInt(1)))
		u := pss.I2OSP(unit, K)
		for _, a := range pss.LenAlts(u) {
			ins = append(ins, in{"len:" + a.Name, a.Data, 0})
		}
		ins = append(ins, in{"len:unit-as-minimal-bytes", unit.Bytes(), 0})
		for _, x := range ins {
			id := k.name + "/" + x.name
			if !r.Want(id) {
				continue
			}
			r.Eval(1)
			r.Distinct(id)
			var out []byte
			var err error
			if p, what := verifmc.Try(func() { out, err = signer.BlindSign(x.data) }); p {
				vs.Violation("C18|blindrsa.Signer.BlindSign|panic:"+verifmc.PanicClass(what)+"|"+x.name, id, id+": "+what, map[string]string{"input": verifmc.FullHex(x.data)})
				continue
			}
			switch {
			case err != nil && x.ok == 1:
				r.Outcome("in-range refused")
				vs.Violation("C18|blindrsa.Signer.BlindSign|refuses an input below the modulus|"+x.name, id, fmt.Sprintf("%s: %v", id, err), map[string]string{"input": verifmc.FullHex(x.data)})
			case err == nil && x.ok == 0:
				r.Outcome("out-of-range accepted")
				vs.Violation("C18|blindrsa.Signer.BlindSign|signs an input not below the modulus or of wrong length|"+x.name, id,
					fmt.Sprintf("%s: returned %s", id, verifmc.Hex(out)), map[string]string{"input": verifmc.FullHex(x.data)})
			case err != nil:
				r.Outcome("refused")
				r.Count("refused", 1)
				if errors.Is(err, blindrsa.ErrUnexpectedSize) {
					r.Count("refused_ErrUnexpectedSize", 1)
				}
				if out != nil {
					vs.Violation("C18|blindrsa.Signer.BlindSign|refusal releases bytes|"+x.name, id, id, nil)
				}
			default:
				r.Outcome("signed")
				r.Count("signed", 1)
				m, ok := k.rk.RSAVP1(new(big.Int).SetBytes(out))
				if len(out) != K || !ok || m.Cmp(new(big.Int).SetBytes(x.data)) != 0 {
					vs.Violation("C18|blindrsa.Signer.BlindSign|result is not the e-th root of the input|"+x.name, id, fmt.Sprintf("%s: out=%s", id, verifmc.Hex(out)), nil)
				}
			}
		}
		if i == 0 {
			r.Sample(map[string]interface{}{"key": k.name, "inputs": len(ins)})
		}
	})
	r.RequireCounter("refused", int64(len(keys)*9))
	r.RequireCounter("signed", int64(len(keys)*5))
}

// ---------------------------------------------------------------------------------------------

type c18VCase struct {
	class, name string
	msg         []byte
	sig         []byte
}

// TestVerifC18_verifier: Verifier.Verify / Client.Verify against rsa.VerifyPSS with the verifier's own PSSOptions.
func TestVerifC18_verifier(t *testing.T) {
	r := verifmc.Start(t, "C18", "verifier")
	defer r.Finish()
	vs := &c18Sink{}
	defer vs.Flush(r) // runs before Finish
	r.Rule("for every key x {salted (sLen 48), zero-salt (sLen 0 = auto in crypto/rsa)} verifier x base encodings {salt 48B, empty salt} of one message: " +
		"the honest EM, every single-bit flip of its k-byte representative, all 255 wrong trailers, every PS byte set to 81/FF, 5 wrong separators (single-bit ones coincide with the flips), " +
		"top bits set, other salt lengths {0,1,47,48,49,max-1,max}, DB length off by one, H mismatches, degenerate EMs - each signed with the raw private " +
		"exponent when below N - plus signature-level alterations {+-1,0,1,N-1,N,N+1,2^(8k)-1,N-s,s+jN, 6 wrong lengths} and altered messages; " +
		"library verdict must equal rsa.VerifyPSS's; non-trivial = distinct (key,verifier,message,signature)")
	keys := c18Keys(t, r)
	r.Set("keys", c18KeyNames(keys))
	type job struct {
		k  *c18Key
		v  blindrsa.Variant
		sl int
		mi int
	}
	var jobs []*job
	for ki, k := range keys {
		for _, v := range []blindrsa.Variant{blindrsa.SHA384PSSDeterministic, blindrsa.SHA384PSSZeroDeterministic} {
			for _, sl := range []int{48, 0} {
				if !k.full && ((sl == 48) != c18Salted(v) || (!r.Thorough() && c18Salted(v) != (ki%2 == 0))) {
					continue // reduced keys: only the base encoding that matches the verifier; quick: one verifier kind per key, alternating
				}
				jobs = append(jobs, &job{k: k, v: v, sl: sl, mi: 2})
			}
		}
	}
	r.Set("jobs(key x verifier x base encoding)", len(jobs))
	if len(jobs) < 4*len(keys) {
		r.NotExhaustive(fmt.Sprintf("%d of the %d (key, verifier, base encoding) combinations are run in this tier (all 4 on the three fixture keys, the matching ones elsewhere)", len(jobs), 4*len(keys)))
	}
	var unsignable int64
	for ji, j := range jobs { // jobs one after the other, cases of a job in parallel
		k := j.k
		if r.Expired() {
			break
		}
		msg := c18Msgs[j.mi]
		digest := pss.Sum(c18H, msg)
		tag := fmt.Sprintf("base-sLen=%d/", j.sl)
		ems, un := pss.EMCases(k.rk, c18H, digest, verifmc.Shake("c18-salt", j.sl))
		unsignable += int64(un)
		cases := make([]c18VCase, len(ems))
		honest := k.rk.SignEM(ems[0].Data)
		for i, e := range ems {
			cases[i] = c18VCase{e.Class, tag + e.Name, msg, nil} // signed below, in parallel
		}
		for _, a := range pss.IntAlts(k.sk.N, k.rk.K(), honest, "congruent not below modulus (s+jN)") {
			cases = append(cases, c18VCase{a.Class, tag + "sig" + a.Name, msg, a.Data})
		}
		for _, a := range pss.LenAlts(honest) {
			cases = append(cases, c18VCase{a.Class, tag + "sig-" + a.Name, msg, a.Data})
		}
		cases = append(cases,
			c18VCase{"other message", tag + "msg-flip", verifmc.Flip(msg, 0), honest},
			c18VCase{"other message", tag + "msg-empty", []byte{}, honest},
			c18VCase{"other message", tag + "msg-extended", append(append([]byte{}, msg...), 0), honest})
		client, err1 := blindrsa.NewClient(j.v, &k.sk.PublicKey)
		ver, err2 := blindrsa.NewVerifier(j.v, &k.sk.PublicKey)
		if err1 != nil || err2 != nil {
			vs.Violation("C18|blindrsa.NewVerifier|honest flow fails|"+c18VName(j.v), k.name, fmt.Sprint(err1, err2), nil)
			continue
		}
		opts := ver.PSSOptions // the verifier's own options (exported, embedded)
		vclass := map[bool]string{true: "sLen=48", false: "sLen=0(auto)"}[c18Salted(j.v)]
		verifmc.ParallelFor(len(cases), func(ci int) {
			c := cases[ci]
			id := fmt.Sprintf("%s/%s/%s", k.name, vclass, c.name)
			if !r.Want(id) {
				return
			}
			if c.sig == nil {
				c.sig = k.rk.SignEM(ems[ci].Data)
			}
			r.Eval(1)
			r.Distinct(k.name, vclass, c.msg, c.sig)
			r.Count("class:"+c.class, 1)
			opt := opts
			want := rsa.VerifyPSS(&k.sk.PublicKey, c18H, pss.Sum(c18H, c.msg), c.sig, &opt) == nil
			var e1, e2 error
			if p, what := verifmc.Try(func() { e1 = ver.Verify(c.msg, c.sig); e2 = client.Verify(c.msg, c.sig) }); p {
				vs.Violation(fmt.Sprintf("C18|blindrsa.Verifier.Verify|panic:%s|%s", verifmc.PanicClass(what), c.class), id, id+": "+what,
					map[string]string{"key": k.name, "msg": verifmc.FullHex(c.msg), "sig": verifmc.FullHex(c.sig)})
				return
			}
			if (e1 == nil) != (e2 == nil) {
				vs.Violation("C18|blindrsa.Client.Verify|differs from Verifier.Verify|"+c.class, id, fmt.Sprintf("%s: Verifier %v, Client %v", id, e1, e2), nil)
			}
			got := e1 == nil
			switch {
			case got && want:
				r.Outcome("both accept")
				r.Count("both_accept", 1)
				r.Count("accepted:"+c.class, 1)
			case !got && !want:
				r.Outcome("both refuse")
				r.Count("both_refuse", 1)
			case got && !want:
				r.Outcome("library accepts, crypto/rsa refuses")
				vs.Violation(fmt.Sprintf("C18|blindrsa.Verifier.Verify|accepts what rsa.VerifyPSS refuses|%s|%s", vclass, c.class), id,
					fmt.Sprintf("%s: library verifier accepts, rsa.VerifyPSS (same key, hash, salt length option) refuses", id),
					map[string]string{"key": k.name, "variant": j.v.String(), "msg": verifmc.FullHex(c.msg), "sig": verifmc.FullHex(c.sig)})
			default:
				r.Outcome("library refuses, crypto/rsa accepts")
				vs.Violation(fmt.Sprintf("C18|blindrsa.Verifier.Verify|refuses what rsa.VerifyPSS accepts|%s|%s", vclass, c.class), id,
					fmt.Sprintf("%s: library verifier refuses (%v), rsa.VerifyPSS accepts", id, e1),
					map[string]string{"key": k.name, "variant": j.v.String(), "msg": verifmc.FullHex(c.msg), "sig": verifmc.FullHex(c.sig)})
			}
		})
		if ji == 0 {
			r.Sample(map[string]interface{}{"key": k.name, "verifier": vclass, "cases": len(cases), "honest_sig": verifmc.Hex(honest)})
		}
	}
	r.Set("crafted_EM_not_below_N_skipped", unsignable)
	nj := int64(len(jobs))
	r.RequireCounter("class:EM bit flip", nj*900)
	r.RequireCounter("class:trailer", nj*247) // 8 of the 255 coincide with bit flips of the last byte
	r.RequireCounter("class:PS byte non-zero", nj*2*29)
	r.RequireCounter("class:congruent not below modulus (s+jN)", int64(len(keys)))
	r.RequireCounter("both_accept", nj+3*6) // >= 1 per job, + the other salt lengths under sLen=auto
	r.RequireCounter("accepted:other salt length", 3*2*6+3)
	r.RequireCounter("accepted:honest", int64(len(keys)))
	r.RequireCounter("both_refuse", nj*1200)
}

// ---------------------------------------------------------------------------------------------

// TestVerifC18_history: every operation sequence of length 3 (hence every one up to depth 3, checked after each
// step) on ONE Client and ONE Signer object; each step must give exactly what fresh objects give.
func TestVerifC18_history(t *testing.T) {
	r := verifmc.Start(t, "C18", "history")
	defer r.Finish()
	vs := &c18Sink{}
	defer vs.Flush(r) // runs before Finish
	opNames := []string{"Sign(m0)", "Sign(m1)", "Verify(good)", "Verify(bad)", "Finalize(bad);Finalize(good)", "Prepare"}
	r.Rule("key rsa_1025 x variants {PSS-Randomized, PSSZero-Deterministic}: all 6^3 sequences over {Sign(m0), Sign(m1) = Prepare+Blind(fixed prefix, salt, blind)+BlindSign+Finalize, " +
		"Verify(honest sig), Verify(bit-flipped sig), Finalize(flipped blind sig) then Finalize(honest) on a retained state, Prepare} on one Client and one Signer, " +
		"checked after every step against the results of fresh objects (byte-identical blinded message and signature, rsa.VerifyPSS accepts); non-trivial = distinct (variant, sequence)")
	r.Set("alphabet", opNames)
	r.Set("depth", 3)
	var k *c18Key
	for _, x := range c18Keys(t, r) {
		if x.name == "rsa_1025" {
			k = x
		}
	}
	if k == nil {
		t.Fatal("fixture rsa_1025 missing")
	}
	units, _, _ := c18Blinds(k, false)
	blind := units[2].r
	msgs := [][]byte{[]byte("history-0"), verifmc.Msg(200)}
	nOps := len(opNames)
	for _, v := range []blindrsa.Variant{blindrsa.SHA384PSSRandomized, blindrsa.SHA384PSSZeroDeterministic} {
		var prep, salt []byte
		if c18Randomized(v) {
			prep = c18Rep(0x02, 32)
		}
		if c18Salted(v) {
			salt = c18Rep(0x7f, 48)
		}
		// reference results on fresh objects
		var ref [2]c18Flow
		okRef := true
		for i := range msgs {
			ref[i] = c18Run(k, v, msgs[i], prep, salt, blind)
			if ref[i].stage != "" || rsa.VerifyPSS(&k.sk.PublicKey, c18H, pss.Sum(c18H, ref[i].prepared), ref[i].sig, c18OptsGo(v)) != nil {
				vs.Violation("C18|blindrsa.history|fresh objects do not produce a valid signature|"+c18VName(v), k.name+"/"+c18VName(v), fmt.Sprintf("stage %q err %v", ref[i].stage, ref[i].err), nil)
				okRef = false
			}
		}
		if !okRef {
			continue
		}
		badSig := verifmc.Flip(ref[0].sig, 13)
		badBlindSig := verifmc.Flip(ref[0].blindSig, 21)
		total := nOps * nOps * nOps
		verifmc.ParallelFor(total, func(hi int) {
			seq := []int{hi / (nOps * nOps), hi / nOps % nOps, hi % nOps}
			names := []string{opNames[seq[0]], opNames[seq[1]], opNames[seq[2]]}
			id := fmt.Sprintf("%s/%s/[%s]", k.name, c18VName(v), strings.Join(names, ","))
			if !r.Want(id) {
				return
			}
			client, err := blindrsa.NewClient(v, &k.sk.PublicKey)
			if err != nil {
				vs.Violation("C18|blindrsa.NewClient|honest flow fails|"+c18VName(v), id, err.Error(), nil)
				return
			}
			signer := blindrsa.NewSigner(k.sk)
			var kept *c18Flow // last completed flow of this history (its State is reused by the Finalize op)
			r.Trace(1)
			r.Distinct(id)
			for step, op := range seq {
				at := fmt.Sprintf("%s step %d (%s)", id, step+1, opNames[op])
				fail := func(class, what string) {
					vs.Violation(fmt.Sprintf("C18|blindrsa.history|%s|%s", class, opNames[op]), id, at+": "+what,
						map[string]string{"key": k.name, "variant": v.String(), "history": strings.Join(names[:step+1], ",")})
				}
				r.Transition(1)
				r.Eval(1)
				p, what := verifmc.Try(func() {
					switch op {
					case 0, 1:
						f := c18RunOn(client, signer, k, msgs[op], prep, salt, blind)
						if f.stage != "" {
							fail("flow fails on reused objects", fmt.Sprintf("%s returned %v", f.stage, f.err))
							return
						}
						if !bytes.Equal(f.blinded, ref[op].blinded) || !bytes.Equal(f.sig, ref[op].sig) {
							fail("result differs from fresh objects", fmt.Sprintf("sig %s, fresh objects give %s", verifmc.Hex(f.sig), verifmc.Hex(ref[op].sig)))
						}
						if rsa.VerifyPSS(&k.sk.PublicKey, c18H, pss.Sum(c18H, f.prepared), f.sig, c18OptsGo(v)) != nil {
							fail("signature refused by rsa.VerifyPSS", "sig "+verifmc.Hex(f.sig))
						}
						kept = &f
						r.Count("signatures_compared_with_fresh", 1)
					case 2:
						if err := client.Verify(ref[0].prepared, ref[0].sig); err != nil {
							fail("honest signature refused on a reused client", err.Error())
						}
						r.Count("verify_good", 1)
					case 3:
						if err := client.Verify(ref[0].prepared, badSig); err == nil {
							fail("altered signature accepted on a reused client", "flipped bit 13")
						}
						r.Count("verify_bad", 1)
					case 4:
						st, good := ref[0].state, ref[0].blindSig
						if kept != nil {
							st, good = kept.state, kept.blindSig
						}
						if _, err := client.Finalize(ref[0].state, badBlindSig); err == nil {
							fail("altered blind signature finalised on a reused client", "flipped bit 21")
						}
						if _, err := client.Finalize(st, good); err != nil {
							fail("honest blind signature refused on a reused state", err.Error())
						}
						r.Count("finalize_bad_then_good", 1)
					case 5:
						out, err := client.Prepare(&c18Seq{data: prep}, msgs[1])
						if err != nil || !bytes.Equal(out, ref[1].prepared) {
							fail("Prepare differs from fresh objects", fmt.Sprint(err))
						}
						r.Count("prepare", 1)
					}
				})
				if p {
					fail("panic:"+verifmc.PanicClass(what), what)
					return
				}
			}
		})
		r.State(total)
	}
	r.Sample(map[string]string{"case": "rsa_1025/PSS-Randomized/[Sign(m0),Verify(bad),Sign(m1)]", "oracle": "byte equality with fresh objects + rsa.VerifyPSS"})
	r.RequireCounter("signatures_compared_with_fresh", 2*2*3*36)
	r.RequireCounter("verify_bad", 2*3*36)
}
