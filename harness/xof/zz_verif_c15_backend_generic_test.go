//go:build verif && ((!amd64 && !386 && !ppc64le) || appengine)

package xof_test

// Mirrors the build constraint of internal/sha3/xor_generic.go (portable sponge back-end).
const c15XorBackend = "xor_generic"
