//go:build verif

package k12

// C15 (KangarooTwelve part): explicit-state search over Write/Read/Clone/Swap/Reset
// histories of the real k12.State with the lane count forced to 1, 2 and 4
// (newDraft10 is unexported, hence in-package), for several customization
// strings, against the one-shot KT128 of ref/keccak.

import (
	"fmt"
	"os"
	"sync"
	"testing"

	"github.com/cloudflare/circl/internal/verifmc"
	"github.com/cloudflare/circl/internal/verifref/c15hist"
	"github.com/cloudflare/circl/internal/verifref/keccak"
)

type c15K struct{ s *State }

func (o *c15K) Write(p []byte) (int, error) { return o.s.Write(p) }
func (o *c15K) Read(p []byte) (int, error)  { return o.s.Read(p) }
func (o *c15K) Reset()                      { o.s.Reset() }
func (o *c15K) CloneObj() c15hist.Obj       { c := o.s.Clone(); return &c15K{&c} }

func c15Custom(n int) []byte {
	c := make([]byte, n)
	for i := range c {
		c[i] = byte(0xc3 ^ (i * 7) ^ (i >> 8))
	}
	return c
}

// c15KExpect caches KT128(Msg[:absorbed], C, maxOut) per absorbed length; shared by the
// three lane counts.
type c15KExpect struct {
	msg, custom []byte
	maxOut      int
	mu          sync.Mutex
	cache       map[int]*c15KEntry
}

type c15KEntry struct {
	once sync.Once
	out  []byte
}

func (c *c15KExpect) get(absorbed int, _ byte, n int) []byte {
	c.mu.Lock()
	e := c.cache[absorbed]
	if e == nil {
		e = &c15KEntry{}
		c.cache[absorbed] = e
	}
	c.mu.Unlock()
	e.once.Do(func() { e.out = keccak.KT128(c.msg[:absorbed], c.custom, c.maxOut) })
	if len(e.out) < n {
		panic("c15: reference output cache too short")
	}
	return e.out
}

func c15KObserve(custom []byte) func(o c15hist.Obj, m c15hist.Model, op c15hist.Op) []string {
	return func(o c15hist.Obj, m c15hist.Model, op c15hist.Op) []string {
		s := o.(*c15K).s
		var n []string
		L := int(s.lanes) * chunkSize
		switch op.Kind {
		case c15hist.KWrite:
			rem := op.Arg
			if s.initialTodo > 0 {
				n = append(n, "write:stalk")
				tk := s.initialTodo
				if rem < tk {
					tk = rem
				}
				rem -= tk
			}
			if rem == 0 {
				return n
			}
			if s.buf == nil {
				n = append(n, "write:leaves-first-chunk")
			}
			if s.lanes == 1 {
				n = append(n, "write:lane1-leaf")
				if s.offset+rem >= chunkSize {
					n = append(n, "write:lane1-chunk-complete")
				}
				return n
			}
			off := s.offset
			if off != 0 || rem < L {
				n = append(n, "write:buffered")
				to := L - off
				if rem < to {
					to = rem
				}
				rem -= to
				off += to
				if off == L {
					n = append(n, "write:buffer-flush")
					off = 0
				}
			}
			if rem >= L {
				n = append(n, "write:direct-writeX")
				rem %= L
			}
			if rem > 0 {
				n = append(n, "write:tail-to-buffer")
			}
		case c15hist.KRead:
			if !s.stalk.IsAbsorbing() {
				return append(n, "read:squeeze")
			}
			n = append(n, "read:finalize")
			total := m.Absorbed + len(custom) + len(keccak.LengthEncode(uint64(len(custom))))
			if total <= chunkSize {
				return append(n, "read:single-chunk")
			}
			if s.buf == nil {
				n = append(n, "read:context-leaves-first-chunk")
			}
			if s.lanes == 1 {
				if (total-chunkSize)%chunkSize != 0 {
					return append(n, "read:lane1-partial-leaf")
				}
				return append(n, "read:lane1-no-partial-leaf")
			}
			rem := (total - chunkSize) % L
			switch {
			case rem == 0:
				n = append(n, "read:empty-buffer")
			case rem <= chunkSize:
				n = append(n, "read:remaining-buffer-1-leaf")
			default:
				n = append(n, "read:remaining-buffer-many-leaves")
			}
			if rem > 0 && rem%chunkSize == 0 {
				n = append(n, "read:remaining-buffer-whole-chunks")
			}
		case c15hist.KClone:
			if !s.stalk.IsAbsorbing() {
				n = append(n, "clone:squeezing")
			} else if s.leaf != nil && s.offset > 0 {
				n = append(n, "clone:with-live-leaf")
			} else if len(s.buf) > 0 && s.offset > 0 {
				n = append(n, "clone:with-buffered-data")
			}
		case c15hist.KReset:
			if !s.stalk.IsAbsorbing() {
				n = append(n, "reset:after-read")
			}
			if s.buf != nil {
				n = append(n, "reset:past-first-chunk")
			}
			if s.offset > 0 {
				n = append(n, "reset:with-buffered-data")
			}
		}
		return n
	}
}

const c15B = chunkSize

func c15KSystem(r *verifmc.Run, lanes byte, clen int, exp *c15KExpect) *c15hist.System {
	custom := exp.custom
	sys := &c15hist.System{
		Name:        fmt.Sprintf("k12[lanes=%d,c=%d]", lanes, clen),
		New:         func() c15hist.Obj { s := newDraft10(custom, lanes); return &c15K{&s} },
		Rate:        168,
		WriteSizes:  []int{0, 1, c15B - 1, c15B, c15B + 1, 2*c15B - 1, 2*c15B + 1, 4*c15B - 1, 4 * c15B, 4*c15B + 1, 9*c15B + 1},
		ReadSizes:   []int{0, 1, 167, 168, 169, 339},
		AbsKey:      func(a int) string { return fmt.Sprint(a) },
		ProbeLen:    177,
		Observe:     c15KObserve(custom),
		DepthMerged: r.Pick(4, 5),
		DepthTree:   r.Pick(3, 4),
	}
	exp.maxOut = sys.MaxOutput()
	sys.Expect = exp.get
	return sys
}

func c15KCustomLens(r *verifmc.Run) []int {
	if r.Thorough() {
		return []int{0, 1, c15B - 1, c15B, 4*c15B + 3}
	}
	return []int{0, 1, c15B - 1, c15B}
}

// TestVerifC15_k12: lanes forced to 1, 2, 4. Lane counts 1 and 2 do not depend on the CPU
// configuration (the 2-way permutation is the scalar one on amd64), so outside the default
// configuration only lanes = 4 is searched (AVX2 assembly vs scalar 4-way).
func TestVerifC15_k12(t *testing.T) {
	if os.Getenv("VERIF_CONFIG") == "appengine" {
		t.Skip("appengine only switches the sponge's xor back-end; K12 on that back-end is covered by k12_lengths, xof and expander")
	}
	r := verifmc.Start(t, "C15", "k12")
	defer r.Finish()
	if err := keccak.SelfTest(); err != nil {
		t.Fatal(err)
	}
	r.Rule("state = per live object (exact bytes absorbed since reset, phase, squeezed mod 168, squeezed>=168) for the pair (current, clone); a transition replays " +
		"the shortest history on a fresh real k12.State with forced lane count, applies one more operation, compares all output with one-shot KT128 of ref/keccak " +
		"and reads 177 further bytes from every live object; non-trivial = distinct (lanes, customization length, pair state)")
	lanesSet := []byte{1, 2, 4}
	if r.Config() != "default" {
		lanesSet = []byte{4}
	}
	clens := c15KCustomLens(r)
	probe := c15KSystem(r, 4, 0, &c15KExpect{})
	msg := verifmc.Msg(probe.MaxInput() + 16)[7:]
	r.Set("lanes", lanesSet)
	r.Set("customization_lengths", clens)
	r.Set("alphabet", probe.Alphabet())
	r.Set("depth_merged", probe.DepthMerged)
	r.Set("depth_full_tree", probe.DepthTree)
	exps := map[int]*c15KExpect{}
	for _, cl := range clens {
		exps[cl] = &c15KExpect{msg: msg, custom: c15Custom(cl), cache: map[int]*c15KEntry{}}
	}
	if r.Replaying() {
		for _, l := range []byte{1, 2, 4} {
			for _, cl := range clens {
				if c15KSystem(r, l, cl, exps[cl]).Replay(r, msg, r.ReplayCase()) {
					return
				}
			}
		}
		return
	}
	var systems []*c15hist.System
	for _, cl := range clens {
		for _, l := range lanesSet {
			systems = append(systems, c15KSystem(r, l, cl, exps[cl]))
		}
	}
	c15hist.SearchAll(r, systems, msg)
	// vacuity floors: every write path and the remaining-buffer path must have run, per lane count
	for _, l := range lanesSet {
		p := fmt.Sprintf("k12[lanes=%d,c=0]:", l)
		need := []string{"write:stalk", "write:leaves-first-chunk", "read:single-chunk", "read:finalize", "read:squeeze", "clone:squeezing", "reset:after-read", "reset:past-first-chunk"}
		if l == 1 {
			need = append(need, "write:lane1-leaf", "write:lane1-chunk-complete", "read:lane1-partial-leaf", "clone:with-live-leaf")
		} else {
			need = append(need, "write:buffered", "write:buffer-flush", "write:direct-writeX", "write:tail-to-buffer",
				"read:remaining-buffer-1-leaf", "read:remaining-buffer-many-leaves", "clone:with-buffered-data", "reset:with-buffered-data")
		}
		for _, c := range need {
			r.RequireCounter(p+c, 3)
		}
	}
}
