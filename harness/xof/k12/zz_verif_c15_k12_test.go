//go:build verif

package k12

// C15 (KangarooTwelve, forced lane count): explicit-state search over Write/Read/Clone/Swap/Reset
// histories of the real k12.State with the lane count forced to 1, 2 and 4, for several
// customization strings, against the one-shot KT128 of ref/keccak. In-package for ONE reason:
// the constructor newDraft10(c, lanes) is unexported. No other unexported identifier is named
// (coverage classes are derived from the model); the same search through the exported
// NewDraft10 lives in zz_verif_c15_k12pub_test.go and does not depend on this file.

import (
	"fmt"
	"os"
	"testing"

	"github.com/cloudflare/circl/internal/verifmc"
	"github.com/cloudflare/circl/internal/verifref/c15hist"
	"github.com/cloudflare/circl/internal/verifref/keccak"
)

type c15K struct{ s *State }

func (o *c15K) Write(p []byte) (int, error) { return o.s.Write(p) }
func (o *c15K) Read(p []byte) (int, error)  { return o.s.Read(p) }
func (o *c15K) Reset()                      { o.s.Reset() }
func (o *c15K) CloneObj() c15hist.Obj       { c := o.s.Clone(); return &c15K{&c} }

func c15KSystem(r *verifmc.Run, lanes byte, clen int, msg []byte) *c15hist.System {
	custom := c15hist.Custom(clen)
	sys := c15hist.K12System(fmt.Sprintf("k12[lanes=%d,c=%d]", lanes, clen), int(lanes), clen, len(keccak.LengthEncode(uint64(clen))),
		func() c15hist.Obj { s := newDraft10(custom, lanes); return &c15K{&s} }, r.Pick(4, 5), r.Pick(3, 4))
	exp := &c15hist.ExpectCache{MaxOut: sys.MaxOutput(), Fn: func(absorbed int, _ byte, n int) []byte {
		return keccak.KT128(msg[:absorbed], custom, n)
	}}
	sys.Expect = exp.Get
	return sys
}

// TestVerifC15_k12: lanes forced to 1, 2, 4. Lane counts 1 and 2 do not depend on the CPU
// configuration (the 2-way permutation is the scalar one on amd64), so outside the default
// configuration only lanes = 4 is searched (AVX2 assembly vs scalar 4-way).
func TestVerifC15_k12(t *testing.T) {
	if os.Getenv("VERIF_CONFIG") == "appengine" {
		t.Skip("appengine only switches the sponge's xor back-end; K12 on that back-end is covered by k12_public, k12_lengths, xof and expander")
	}
	r := verifmc.Start(t, "C15", "k12")
	defer r.Finish()
	if err := keccak.SelfTest(); err != nil {
		t.Fatal(err)
	}
	r.Rule("state = per live object (exact bytes absorbed since reset, phase, squeezed mod 168, squeezed>=168, class at last reset) for the pair (current, clone); a transition replays " +
		"the shortest history on a fresh real k12.State with forced lane count, applies one more operation, compares all output with one-shot KT128 of ref/keccak " +
		"and reads 177 further bytes from every live object; non-trivial = distinct (lanes, customization length, pair state)")
	lanesSet := []byte{1, 2, 4}
	if r.Config() != "default" {
		lanesSet = []byte{4}
	}
	clens := []int{0, 1, 8191, 8192}
	if r.Thorough() {
		clens = append(clens, 4*8192+3)
	}
	probe := c15KSystem(r, 4, 0, nil)
	msg := verifmc.Msg(probe.MaxInput() + 16)[7:]
	r.Set("lanes", lanesSet)
	r.Set("customization_lengths", clens)
	r.Set("alphabet", probe.Alphabet())
	r.Set("depth_merged", probe.DepthMerged)
	r.Set("depth_full_tree", probe.DepthTree)
	if r.Replaying() {
		for _, l := range []byte{1, 2, 4} {
			for _, cl := range clens {
				if c15KSystem(r, l, cl, msg).Replay(r, msg, r.ReplayCase()) {
					return
				}
			}
		}
		return
	}
	var systems []*c15hist.System
	for _, cl := range clens {
		for _, l := range lanesSet {
			systems = append(systems, c15KSystem(r, l, cl, msg))
		}
	}
	c15hist.SearchAll(r, systems, msg)
	// vacuity floors: every write path and the remaining-buffer path must have run, per lane count
	for _, l := range lanesSet {
		for _, c := range c15hist.K12Floors(int(l)) {
			r.RequireCounter(fmt.Sprintf("k12[lanes=%d,c=0]:%s", l, c), 3)
		}
	}
}
