//go:build verif

package k12

import (
	"fmt"
	"testing"

	"github.com/cloudflare/circl/internal/verifmc"
	"github.com/cloudflare/circl/internal/verifref/c15hist"
	"github.com/cloudflare/circl/internal/verifref/keccak"
)

// TestVerifC15_k12_lengths: one Write + one Read with the lane count forced to 1, 2, 4 on every
// message length of the property's alphabet, for every customization length, against KT128 of
// ref/keccak. In-package only for the unexported constructor newDraft10; the same sweep through
// the exported Draft10Sum / NewDraft10 is the unit k12_sum in zz_verif_c15_k12pub_test.go.
func TestVerifC15_k12_lengths(t *testing.T) {
	r := verifmc.Start(t, "C15", "k12_lengths")
	defer r.Finish()
	if err := keccak.SelfTest(); err != nil {
		t.Fatal(err)
	}
	var entries []c15hist.K12Entry
	for _, l := range []byte{1, 2, 4} {
		l := l
		entries = append(entries, c15hist.K12Entry{Name: fmt.Sprintf("newDraft10[lanes=%d]", l), Run: func(out, m, c []byte) {
			s := newDraft10(c, l)
			_, _ = s.Write(m)
			_, _ = s.Read(out)
		}})
	}
	c15hist.K12LengthSweep(r, "k12", entries)
}
