//go:build verif

package k12

import (
	"bytes"
	"fmt"
	"testing"

	"github.com/cloudflare/circl/internal/verifmc"
	"github.com/cloudflare/circl/internal/verifref/c15hist"
	"github.com/cloudflare/circl/internal/verifref/keccak"
)

// TestVerifC15_k12_lengths: one Write + one Read (and the public one-shot Draft10Sum, which
// lets NewDraft10 pick the lane count from the CPU) on every message length of the property's
// alphabet, for every customization length, for lanes 1, 2, 4, against KT128 of ref/keccak.
func TestVerifC15_k12_lengths(t *testing.T) {
	r := verifmc.Start(t, "C15", "k12_lengths")
	defer r.Finish()
	if err := keccak.SelfTest(); err != nil {
		t.Fatal(err)
	}
	r.Rule("message lengths {0,1,167,168,169,8190..8194} ∪ {k*8192-1,k*8192,k*8192+1 : 2<=k<=10} x customization lengths {0,1,41,8191,8192,8193} x " +
		"{lanes=1,2,4 forced; Draft10Sum with the CPU-selected lane count} x output lengths {32,169}; non-trivial = distinct (entry, message length, customization length)")
	const B = chunkSize
	lens := []int{0, 1, 167, 168, 169, B - 2, B - 1, B, B + 1, B + 2}
	for k := 2; k <= 10; k++ {
		lens = append(lens, k*B-1, k*B, k*B+1)
	}
	clens := []int{0, 1, 41, B - 1, B, B + 1}
	msg := verifmc.Msg(10*B + 16)[3:]
	type job struct{ l, c int }
	var jobs []job
	for _, l := range lens {
		for _, c := range clens {
			jobs = append(jobs, job{l, c})
		}
	}
	r.Set("message_lengths", len(lens))
	r.Set("customization_lengths", clens)
	var coll c15hist.Collector
	verifmc.ParallelFor(len(jobs), func(i int) {
		j := jobs[i]
		m, c := msg[:j.l], c15Custom(j.c)
		want := keccak.KT128(m, c, 169)
		for way := 0; way < 4; way++ {
			name := "Draft10Sum"
			if way < 3 {
				name = fmt.Sprintf("newDraft10[lanes=%d]", 1<<uint(way))
			}
			if way == 3 {
				// single-chunk / multi-chunk boundary is where the total S = M || C || len(C) crosses 8192
				total := j.l + j.c + len(keccak.LengthEncode(uint64(j.c)))
				if total == B || total == B+1 {
					r.Count("total_at_chunk_boundary", 1)
				}
			}
			for _, out := range []int{32, 169} {
				id := fmt.Sprintf("%s/len=%d/c=%d/out=%d", name, j.l, j.c, out)
				if !r.Want(id) {
					continue
				}
				r.Eval(1)
				r.Distinct(name, j.l, j.c)
				got := bytes.Repeat([]byte{0x77}, out)
				p, what := verifmc.Try(func() {
					if way == 3 {
						Draft10Sum(got, m, c)
						return
					}
					s := newDraft10(c, byte(1<<uint(way)))
					_, _ = s.Write(m)
					_, _ = s.Read(got)
				})
				cls := "single-chunk"
				if j.l+j.c+1 > B {
					cls = "multi-chunk"
				}
				if p {
					coll.Add(i, way*2, "C15|k12."+name+"|panic:"+verifmc.PanicClass(what)+"|"+cls, id, id+": "+what, nil)
				} else if !bytes.Equal(got, want[:out]) {
					coll.Add(i, way*2+1, "C15|k12."+name+"|output-mismatch|"+cls, id,
						fmt.Sprintf("%s: got %s want %s", id, verifmc.Hex(got), verifmc.Hex(want[:out])),
						map[string]interface{}{"entry": name, "len": j.l, "custom_len": j.c, "out": out})
				}
			}
		}
	})
	coll.Flush(r)
	r.Sample(map[string]interface{}{"entry": "Draft10Sum", "len": 8192, "custom_len": 8191, "out": 32})
	r.Sample(map[string]interface{}{"entry": "newDraft10[lanes=2]", "len": 10*B + 1, "custom_len": 41, "out": 169})
	r.RequireCounter("total_at_chunk_boundary", 2)
}
