//go:build verif

package k12

import "fmt"

// Read-out of the lane count NewDraft10 picked from keccakf1600.IsEnabledX4/X2.
func init() {
	C14ReadLanes = func() string {
		probe := NewDraft10(nil)
		return fmt.Sprintf("lanes=%d", probe.lanes)
	}
}
