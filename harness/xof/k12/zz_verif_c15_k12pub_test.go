//go:build verif

package k12_test

// C15 (KangarooTwelve through the exported API only): NewDraft10 / Draft10Sum with the lane count
// the package selects for this CPU and build (4 with AVX2, 1 under cpu.avx2=off, scalar 4-way
// under purego; portable xor back-end under appengine). External test package: survives any
// refactoring of k12's internals.

import (
	"fmt"
	"testing"

	"github.com/cloudflare/circl/internal/verifmc"
	"github.com/cloudflare/circl/internal/verifref/c15hist"
	"github.com/cloudflare/circl/internal/verifref/keccak"
	"github.com/cloudflare/circl/simd/keccakf1600"
	"github.com/cloudflare/circl/xof/k12"
)

type c15KPub struct{ s *k12.State }

func (o *c15KPub) Write(p []byte) (int, error) { return o.s.Write(p) }
func (o *c15KPub) Read(p []byte) (int, error)  { return o.s.Read(p) }
func (o *c15KPub) Reset()                      { o.s.Reset() }
func (o *c15KPub) CloneObj() c15hist.Obj       { c := o.s.Clone(); return &c15KPub{&c} }

// c15ExpectedLanes mirrors the documented selection of NewDraft10 (exported predicates of
// simd/keccakf1600); used only to label the coverage classes.
func c15ExpectedLanes() int {
	switch {
	case keccakf1600.IsEnabledX4():
		return 4
	case keccakf1600.IsEnabledX2():
		return 2
	}
	return 1
}

func c15KPubSystem(r *verifmc.Run, clen int, msg []byte) *c15hist.System {
	custom := c15hist.Custom(clen)
	sys := c15hist.K12System(fmt.Sprintf("k12.NewDraft10[c=%d]", clen), c15ExpectedLanes(), clen, len(keccak.LengthEncode(uint64(clen))),
		func() c15hist.Obj { s := k12.NewDraft10(custom); return &c15KPub{&s} }, r.Pick(4, 5), r.Pick(3, 4))
	exp := &c15hist.ExpectCache{MaxOut: sys.MaxOutput(), Fn: func(absorbed int, _ byte, n int) []byte {
		return keccak.KT128(msg[:absorbed], custom, n)
	}}
	sys.Expect = exp.Get
	return sys
}

func TestVerifC15_k12_public(t *testing.T) {
	r := verifmc.Start(t, "C15", "k12_public")
	defer r.Finish()
	if err := keccak.SelfTest(); err != nil {
		t.Fatal(err)
	}
	r.Rule("as unit k12, but objects come from the exported k12.NewDraft10 (lane count chosen by the package for this configuration); " +
		"customization lengths {0, 8191} (thorough: {0,1,8191,8192}); non-trivial = distinct (customization length, pair state)")
	clens := []int{0, 8191}
	if r.Thorough() {
		clens = []int{0, 1, 8191, 8192}
	}
	lanes := c15ExpectedLanes()
	r.Set("expected_lanes", lanes)
	r.Set("customization_lengths", clens)
	probe := c15KPubSystem(r, 0, nil)
	msg := verifmc.Msg(probe.MaxInput() + 16)[5:]
	r.Set("alphabet", probe.Alphabet())
	if r.Replaying() {
		for _, cl := range []int{0, 1, 8191, 8192} {
			if c15KPubSystem(r, cl, msg).Replay(r, msg, r.ReplayCase()) {
				return
			}
		}
		return
	}
	var systems []*c15hist.System
	for _, cl := range clens {
		systems = append(systems, c15KPubSystem(r, cl, msg))
	}
	c15hist.SearchAll(r, systems, msg)
	for _, c := range []string{"write:stalk", "write:leaves-first-chunk", "read:single-chunk", "read:finalize", "read:squeeze",
		"clone:squeezing", "clone:past-first-chunk-empty-buffer", "reset:after-read", "reset:past-first-chunk"} {
		r.RequireCounter("k12.NewDraft10[c=0]:"+c, 3)
	}
}

// TestVerifC15_k12_sum: the exported one-shot Draft10Sum and NewDraft10 + one Write + one Read on
// the property's message-length alphabet.
func TestVerifC15_k12_sum(t *testing.T) {
	r := verifmc.Start(t, "C15", "k12_sum")
	defer r.Finish()
	if err := keccak.SelfTest(); err != nil {
		t.Fatal(err)
	}
	r.Set("expected_lanes", c15ExpectedLanes())
	c15hist.K12LengthSweep(r, "k12", []c15hist.K12Entry{
		{Name: "Draft10Sum", Run: func(out, m, c []byte) { k12.Draft10Sum(out, m, c) }},
		{Name: "NewDraft10", Run: func(out, m, c []byte) {
			s := k12.NewDraft10(c)
			_, _ = s.Write(m)
			_, _ = s.Read(out)
		}},
	})
}
