//go:build verif

package k12_test

// C14 for xof/k12: KangarooTwelve (draft-10) through NewDraft10, which picks the number of lanes from
// keccakf1600.IsEnabledX4/X2: 4 lanes with AVX2 (also in the purego build, where the 4-way permutation
// is the scalar fallback), 1 lane without. Messages around every chunk / lane-buffer boundary,
// several customization strings, write chunkings, output lengths, Clone and Reset.

import (
	"fmt"
	"testing"

	"github.com/cloudflare/circl/internal/verifc14"
	"github.com/cloudflare/circl/internal/verifmc"
	"github.com/cloudflare/circl/xof/k12"
)

func TestVerifC14_k12(t *testing.T) {
	c := verifc14.Start(t, "k12")
	c.BackendOptional("xof/k12 State.lanes chosen by NewDraft10", k12.C14ReadLanes, func(f verifc14.Features) string {
		if f.AVX2 { // IsEnabledX4() reads the CPU bit in every build
			return "lanes=4"
		}
		return "lanes=1" // no 2-way SIMD on amd64
	})
	c.BackendFromFeatures("simd/keccakf1600 4-way permutation", verifc14.X4Sel)
	r := c.R
	const B = 8192 // chunk size of KangarooTwelve (the package keeps it unexported)
	lens := []int{0, 1, 167, 168, 169, B - 1, B, B + 1, 2*B - 1, 2 * B, 2*B + 1, 3*B + 1, 4*B - 1, 4 * B, 4*B + 1, 5*B - 1, 5 * B, 5*B + 1, 8*B - 1, 8 * B, 8*B + 1, 9*B + 1, 13*B + 5}
	if r.Thorough() {
		lens = append(lens, 3*B-1, 3*B, 6*B+1, 7*B, 12*B+1, 16*B+1, 17*B-1, 33*B+7)
	}
	custs := []int{0, 1, 41, B - 1, B + 1}
	r.Set("message_lengths", lens)
	r.Set("customization_lengths", custs)
	r.Rule("message length x customization length x write chunking {one shot, byte 1 then rest, B then rest, B+1 then 4B then rest, 3 equal parts} x output read as {32 bytes at once, 1+167+169 bytes}; " +
		"plus Clone after the first part and Reset-then-rehash for each; B = 8192; message byte k is a fixed function of k")
	r.NotExhaustive("declared length alphabets")
	msg := verifmc.Msg(lens[len(lens)-1] + 16)
	for _, l := range lens {
		if l > len(msg) {
			t.Fatal("message buffer too short")
		}
	}
	cust := verifmc.Shake("c14-k12-cust", B+1)
	type job struct{ l, cl int }
	var jobs []job
	for _, l := range lens {
		for _, cl := range custs {
			jobs = append(jobs, job{l, cl})
		}
	}
	splits := func(l int) [][]int {
		out := [][]int{{l}}
		if l > 1 {
			out = append(out, []int{1, l - 1})
		}
		if l > B {
			out = append(out, []int{B, l - B})
		}
		if l > 5*B+1 {
			out = append(out, []int{B + 1, 4 * B, l - 5*B - 1})
		}
		if l >= 3 {
			out = append(out, []int{l / 3, l / 3, l - 2*(l/3)})
		}
		return out
	}
	verifmc.ParallelFor(len(jobs), func(ji int) {
		j := jobs[ji]
		c.Case(fmt.Sprintf("K12#len=%d/cust=%d", j.l, j.cl), func(d *verifc14.D) {
			m, cs := msg[:j.l], cust[:j.cl]
			out := make([]byte, 32)
			k12.Draft10Sum(out, m, cs)
			d.Bytes("sum32", out)
			d.Exec(1)
			for si, sp := range splits(j.l) {
				s := k12.NewDraft10(cs)
				off := 0
				var clone k12.State
				for pi, n := range sp {
					_, _ = s.Write(m[off : off+n])
					off += n
					if pi == 0 {
						clone = s.Clone()
						_, _ = clone.Write(m[off:])
					}
				}
				long := make([]byte, 1+167+169)
				_, _ = s.Read(long[:1])
				_, _ = s.Read(long[1:168])
				_, _ = s.Read(long[168:])
				d.Bytes(fmt.Sprintf("split%d", si), long)
				co := make([]byte, 64)
				_, _ = clone.Read(co)
				d.Bytes(fmt.Sprintf("split%d.clone", si), co)
				s.Reset()
				_, _ = s.Write(m)
				ro := make([]byte, 48)
				_, _ = s.Read(ro)
				d.Bytes(fmt.Sprintf("split%d.reset", si), ro)
				d.Exec(3)
			}
		})
	})
	c.Finish(len(jobs))
}
