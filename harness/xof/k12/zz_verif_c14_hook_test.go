//go:build verif

package k12

// C14ReadLanes is installed by zz_verif_c14_be_lanes_test.go (the only C14 file that names the unexported field
// State.lanes). It stays nil when that file does not build against the tree under test; the transcript unit
// (external test package, exported API only) then records "dispatch not observed" and still runs.
var C14ReadLanes func() string
