//go:build verif

package xof_test

// C15 (xof.XOF part): the public interface xof.ID.New() for SHAKE128, SHAKE256,
// BLAKE2XB, BLAKE2XS and K12D10 under Write/Read/Clone/Swap/Reset histories.

import (
	"fmt"
	"sync"
	"testing"

	"github.com/cloudflare/circl/internal/verifmc"
	"github.com/cloudflare/circl/internal/verifref/blake2x"
	"github.com/cloudflare/circl/internal/verifref/c15hist"
	"github.com/cloudflare/circl/internal/verifref/keccak"
	"github.com/cloudflare/circl/xof"
)

type c15X struct{ x xof.XOF }

func (o *c15X) Write(p []byte) (int, error) { return o.x.Write(p) }
func (o *c15X) Read(p []byte) (int, error)  { return o.x.Read(p) }
func (o *c15X) Reset()                      { o.x.Reset() }
func (o *c15X) CloneObj() c15hist.Obj       { return &c15X{o.x.Clone()} }

type c15XEntry struct {
	once sync.Once
	out  []byte
}

type c15XExpect struct {
	fn     func(m []byte, n int) []byte
	msg    []byte
	maxOut int
	mu     sync.Mutex
	cache  map[int]*c15XEntry
}

func (c *c15XExpect) get(absorbed int, _ byte, n int) []byte {
	c.mu.Lock()
	e := c.cache[absorbed]
	if e == nil {
		e = &c15XEntry{}
		c.cache[absorbed] = e
	}
	c.mu.Unlock()
	e.once.Do(func() { e.out = c.fn(c.msg[:absorbed], c.maxOut) })
	if len(e.out) < n {
		panic("c15: reference output cache too short")
	}
	return e.out
}

type c15XDef struct {
	name   string
	id     xof.ID
	inBlk  int
	outBlk int
	writes []int
	reads  []int
	absKey func(a int) string
	ref    func(m []byte, n int) []byte
}

func c15XDefs() []c15XDef {
	sponge := func(name string, id xof.ID, rt int, ref func(m []byte, n int) []byte) c15XDef {
		return c15XDef{name, id, rt, rt, []int{0, 1, 7, rt - 1, rt, rt + 1, 2 * rt, 2*rt + 1}, []int{0, 1, rt - 1, rt, rt + 1, 2*rt + 3},
			func(a int) string { return fmt.Sprintf("%d.%v", a%rt, a >= rt) }, ref}
	}
	b2 := func(name string, id xof.ID, in, out int, ref func(m []byte, n int) []byte) c15XDef {
		// BLAKE2 keeps the last block buffered until more input arrives: cursor = (a mod in, a == 0, a <= in)
		return c15XDef{name, id, in, out, []int{0, 1, in - 1, in, in + 1, 2 * in, 2*in + 1}, []int{0, 1, out - 1, out, out + 1, 2*out + 3},
			func(a int) string { return fmt.Sprintf("%d.%v.%v", a%in, a == 0, a <= in) }, ref}
	}
	const B = 8192
	return []c15XDef{
		sponge("SHAKE128", xof.SHAKE128, 168, keccak.SHAKE128),
		sponge("SHAKE256", xof.SHAKE256, 136, keccak.SHAKE256),
		b2("BLAKE2XB", xof.BLAKE2XB, 128, 64, blake2x.XB),
		b2("BLAKE2XS", xof.BLAKE2XS, 64, 32, blake2x.XS),
		{"K12D10", xof.K12D10, B, 168, []int{0, 1, B - 1, B, B + 1, 4*B - 1, 4*B + 1}, []int{0, 1, 168, 169},
			func(a int) string { return fmt.Sprint(a) }, func(m []byte, n int) []byte { return keccak.KT128(m, nil, n) }},
	}
}

func c15XSystem(r *verifmc.Run, d c15XDef, msg []byte) *c15hist.System {
	sys := &c15hist.System{
		Name:        "xof." + d.name,
		New:         func() c15hist.Obj { return &c15X{d.id.New()} },
		Rate:        d.outBlk,
		WriteSizes:  d.writes,
		ReadSizes:   d.reads,
		AbsKey:      d.absKey,
		ProbeLen:    d.outBlk + 9,
		DepthMerged: r.Pick(5, 7),
		DepthTree:   r.Pick(3, 4),
	}
	if d.name == "K12D10" {
		sys.DepthMerged = r.Pick(4, 5)
	}
	exp := &c15XExpect{fn: d.ref, msg: msg, cache: map[int]*c15XEntry{}}
	exp.maxOut = sys.MaxOutput()
	sys.Expect = exp.get
	return sys
}

func TestVerifC15_xof(t *testing.T) {
	r := verifmc.Start(t, "C15", "xof")
	defer r.Finish()
	r.Set("xor_backend", c15XorBackend)
	r.Count("backend:"+c15XorBackend, 1)
	if r.Config() == "appengine" && c15XorBackend != "xor_generic" {
		r.Vacuous("configuration appengine did not select the portable sponge back-end xor_generic.go")
	}
	if err := keccak.SelfTest(); err != nil {
		t.Fatal(err)
	}
	if err := blake2x.SelfTest(); err != nil {
		t.Fatal(err)
	}
	r.Rule("state = per live object (input cursor class, phase, squeezed mod output block, squeezed>=block) for the pair (current, clone); a transition replays the " +
		"shortest history on a fresh xof.ID.New() object, applies one more operation, compares all output with the one-shot reference (ref/keccak, ref/blake2x) " +
		"and reads block+9 further bytes from every live object; non-trivial = distinct (XOF id, pair state)")
	defs := c15XDefs()
	maxIn := 0
	for _, d := range defs {
		if n := c15XSystem(r, d, nil).MaxInput(); n > maxIn {
			maxIn = n
		}
	}
	msg := verifmc.Msg(maxIn + 8)[1:]
	var names []string
	for _, d := range defs {
		names = append(names, d.name)
	}
	r.Set("xofs", names)
	r.Set("alphabet_example_BLAKE2XB", c15XSystem(r, defs[2], msg).Alphabet())
	if r.Replaying() {
		for _, d := range defs {
			if c15XSystem(r, d, msg).Replay(r, msg, r.ReplayCase()) {
				return
			}
		}
		return
	}
	var systems []*c15hist.System
	for _, d := range defs {
		systems = append(systems, c15XSystem(r, d, msg))
	}
	c15hist.SearchAll(r, systems, msg)
	for _, sys := range systems {
		r.RequireCounter(sys.Name+":states", 50)
	}
}
