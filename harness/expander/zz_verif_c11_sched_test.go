//go:build verif

package expander_test

// C11 (schedules): one expander object (a "suite" of hash-to-field) shared by several goroutines.

import (
	"crypto"
	"os"
	"testing"

	"github.com/cloudflare/circl/expander"
	"github.com/cloudflare/circl/internal/verifmc"
	"github.com/cloudflare/circl/internal/verifmc/sched"
	"github.com/cloudflare/circl/xof"
)

func c11ExpanderScenarios() []sched.Scenario {
	var scs []sched.Scenario
	mk := map[string]func() interface{}{
		"XMD-SHA256":   func() interface{} { return expander.NewExpanderMD(crypto.SHA256, []byte("c11-dst")) },
		"XMD-SHA512":   func() interface{} { return expander.NewExpanderMD(crypto.SHA512, []byte("c11-dst")) },
		"XOF-SHAKE128": func() interface{} { return expander.NewExpanderXOF(xof.SHAKE128, 128, []byte("c11-dst")) },
	}
	for _, name := range []string{"XMD-SHA256", "XMD-SHA512", "XOF-SHAKE128"} {
		exp := func(msg string, n uint) func(interface{}) interface{} {
			return func(sh interface{}) interface{} { return sh.(expander.Expander).Expand([]byte(msg), n) }
		}
		scs = append(scs, sched.Scenario{Name: "expander/" + name + "/Expand||Expand", Setup: mk[name],
			Threads: []func(interface{}) interface{}{exp("message one", 96), exp(string(verifmc.Msg(300)), 200)}})
	}
	return scs
}

func TestVerifC11_sched_expander(t *testing.T) {
	if os.Getenv("VERIF_CONFIG") != "sched" {
		t.Skip("runs only under the instrumented configuration")
	}
	r := verifmc.Start(t, "C11", "sched_expander")
	defer r.Finish()
	r.Rule("every explored schedule of two Expand calls on one shared expander object; non-trivial = distinct scenario")
	sched.RunScenarios(r, c11ExpanderScenarios(), 2)
}

func TestVerifC11_race_expander(t *testing.T) {
	if os.Getenv("VERIF_CONFIG") != "race" {
		t.Skip("runs only under -race")
	}
	r := verifmc.Start(t, "C11", "race_expander")
	defer r.Finish()
	r.Rule("same scenario bodies on free-running goroutines under the race detector")
	sched.FreeRun(r, c11ExpanderScenarios(), r.Pick(100, 500))
}
