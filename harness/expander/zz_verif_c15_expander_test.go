//go:build verif

package expander_test

// C15 (RFC 9380 message expanders): expand_message_xmd / expand_message_xof of circl equal
// the transcription of RFC 9380 section 5.3 in ref/h2cexpand on the full product of the
// message / DST / output-length alphabets, including oversize DSTs and the ABORT conditions.

import (
	"bytes"
	"crypto"
	_ "crypto/sha256"
	_ "crypto/sha512"
	"encoding/hex"
	"encoding/json"
	"fmt"
	"hash"
	"os"
	"path/filepath"
	"strconv"
	"testing"

	"github.com/cloudflare/circl/expander"
	"github.com/cloudflare/circl/internal/verifmc"
	"github.com/cloudflare/circl/internal/verifref/blake2x"
	"github.com/cloudflare/circl/internal/verifref/c15hist"
	"github.com/cloudflare/circl/internal/verifref/h2cexpand"
	"github.com/cloudflare/circl/internal/verifref/keccak"
	"github.com/cloudflare/circl/xof"
	_ "golang.org/x/crypto/sha3"
)

type c15XofDef struct {
	name string
	id   xof.ID
	k    uint
	ref  func(m []byte, n int) []byte
}

func c15RefXOFs() []c15XofDef {
	kt := func(m []byte, n int) []byte { return keccak.KT128(m, nil, n) }
	return []c15XofDef{
		{"SHAKE128/k=128", xof.SHAKE128, 128, keccak.SHAKE128},
		{"SHAKE128/k=256", xof.SHAKE128, 256, keccak.SHAKE128},
		{"SHAKE256/k=256", xof.SHAKE256, 256, keccak.SHAKE256},
		{"SHAKE256/k=100", xof.SHAKE256, 100, keccak.SHAKE256},
		{"BLAKE2XB/k=128", xof.BLAKE2XB, 128, blake2x.XB},
		{"BLAKE2XS/k=128", xof.BLAKE2XS, 128, blake2x.XS},
		{"K12D10/k=128", xof.K12D10, 128, kt},
	}
}

// TestVerifC15_refcheck_expander binds ref/h2cexpand to the RFC 9380 appendix K vectors
// shipped in expander/testdata (msg_prime is not needed: uniform_bytes is the binding).
func TestVerifC15_refcheck_expander(t *testing.T) {
	r := verifmc.Start(t, "C15", "refcheck_expander")
	defer r.Finish()
	r.Rule("ref/h2cexpand evaluated on every RFC 9380 appendix K expander vector in expander/testdata; non-trivial = each vector")
	if err := keccak.SelfTest(); err != nil {
		t.Fatal(err)
	}
	if err := blake2x.SelfTest(); err != nil {
		t.Fatal(err)
	}
	files, err := filepath.Glob("testdata/*.json")
	if err != nil || len(files) < 6 {
		t.Fatalf("expected the six RFC 9380 vector files, found %d (%v)", len(files), err)
	}
	n := 0
	for _, fn := range files {
		raw, err := os.ReadFile(fn)
		if err != nil {
			t.Fatal(err)
		}
		var suite struct {
			DST   string `json:"DST"`
			Hash  string `json:"hash"`
			Name  string `json:"name"`
			K     int    `json:"k"`
			Tests []struct {
				Len          string `json:"len_in_bytes"`
				Msg          string `json:"msg"`
				UniformBytes string `json:"uniform_bytes"`
			} `json:"tests"`
		}
		if err := json.Unmarshal(raw, &suite); err != nil {
			t.Fatal(err)
		}
		for _, tc := range suite.Tests {
			l, err := strconv.ParseInt(tc.Len, 0, 32)
			if err != nil {
				t.Fatal(err)
			}
			var got []byte
			switch suite.Name + "/" + suite.Hash {
			case "expand_message_xmd/SHA256":
				got, err = h2cexpand.XMD(crypto.SHA256.New, []byte(tc.Msg), []byte(suite.DST), int(l))
			case "expand_message_xmd/SHA512":
				got, err = h2cexpand.XMD(crypto.SHA512.New, []byte(tc.Msg), []byte(suite.DST), int(l))
			case "expand_message_xof/SHAKE128":
				got, err = h2cexpand.XOF(keccak.SHAKE128, suite.K, []byte(tc.Msg), []byte(suite.DST), int(l))
			case "expand_message_xof/SHAKE256":
				got, err = h2cexpand.XOF(keccak.SHAKE256, suite.K, []byte(tc.Msg), []byte(suite.DST), int(l))
			default:
				t.Fatalf("unexpected suite %s/%s in %s", suite.Name, suite.Hash, fn)
			}
			if err != nil || hex.EncodeToString(got) != tc.UniformBytes {
				t.Fatalf("ref/h2cexpand differs from RFC 9380 vector in %s (msg %q, len %d): err=%v", fn, tc.Msg, l, err)
			}
			n++
			r.Eval(1)
			r.Distinct(fn, tc.Msg, tc.Len)
		}
	}
	if n < 50 {
		t.Fatalf("only %d RFC vectors found", n)
	}
	r.Count("rfc9380_vectors", n)
	r.Sample(map[string]interface{}{"rfc9380_vectors": n, "files": len(files)})
}

func c15Dst(n int) []byte {
	d := make([]byte, n)
	for i := range d {
		d[i] = byte('A' + (i*11+n)%53)
	}
	return d
}

func c15OutClass(n, b int, abort bool) string {
	switch {
	case abort:
		return "len>limit"
	case n == 0:
		return "len=0"
	case n <= b:
		return "len<=block"
	}
	return "len>block"
}

func TestVerifC15_expander(t *testing.T) {
	r := verifmc.Start(t, "C15", "expander")
	defer r.Finish()
	if err := keccak.SelfTest(); err != nil {
		t.Fatal(err)
	}
	if err := blake2x.SelfTest(); err != nil {
		t.Fatal(err)
	}
	r.Rule("full product: XMD hashes {SHA256,SHA384,SHA512,SHA3-256} x message lengths {0,1,135,136,137,271,272,273,s-1,s,s+1} x DST lengths {0,1,16,255,256,300} x " +
		"output lengths {0,1,b-1,b,b+1,2b+1,255b-1,255b,255b+1,65535,65536}; XOF (id,k) in 7 combinations x same messages x same DSTs x output lengths " +
		"{0,1,32,167,168,169,256,65535,65536,65537,70000}; where RFC 9380 says ABORT a panic is required; every Expand is called twice on the same object; " +
		"non-trivial = distinct (expander, message length, DST length, output length)")
	msgAll := verifmc.Msg(600)
	dstLens := []int{0, 1, 16, 255, 256, 300}
	type xmdDef struct {
		name string
		h    crypto.Hash
	}
	xmds := []xmdDef{{"SHA256", crypto.SHA256}, {"SHA384", crypto.SHA384}, {"SHA512", crypto.SHA512}, {"SHA3-256", crypto.SHA3_256}}
	xofs := c15RefXOFs()
	if r.Config() != "default" {
		// only the Keccak-based XOFs depend on the build / CPU configuration (K12 lane count, 4-way permutation)
		xmds = nil
		xofs = []c15XofDef{xofs[0], xofs[6]}
		r.Set("reduced", "non-default configuration: only XOF[SHAKE128/k=128] and XOF[K12D10/k=128]")
	}
	type job struct {
		xmd  *xmdDef
		xof  *c15XofDef
		mlen int
		dlen int
		out  int
	}
	var jobs []job
	msgLens := func(s int) []int {
		set := map[int]bool{}
		var o []int
		for _, l := range append(verifmc.Lens(136), s-1, s, s+1) {
			if !set[l] {
				set[l] = true
				o = append(o, l)
			}
		}
		return o
	}
	for i := range xmds {
		x := &xmds[i]
		b, s := x.h.Size(), x.h.New().BlockSize()
		for _, ml := range msgLens(s) {
			for _, dl := range dstLens {
				for _, o := range []int{0, 1, b - 1, b, b + 1, 2*b + 1, 255*b - 1, 255 * b, 255*b + 1, 65535, 65536} {
					jobs = append(jobs, job{xmd: x, mlen: ml, dlen: dl, out: o})
				}
			}
		}
	}
	for i := range xofs {
		x := &xofs[i]
		for _, ml := range msgLens(168) {
			for _, dl := range dstLens {
				for _, o := range []int{0, 1, 32, 167, 168, 169, 256, 65535, 65536, 65537, 70000} {
					jobs = append(jobs, job{xof: x, mlen: ml, dlen: dl, out: o})
				}
			}
		}
	}
	r.Set("cases", len(jobs))
	var coll c15hist.Collector
	verifmc.ParallelFor(len(jobs), func(i int) {
		j := jobs[i]
		msg, dst := msgAll[:j.mlen], c15Dst(j.dlen)
		var name string
		var want []byte
		var rerr error
		var exp expander.Expander
		blk := 0
		if j.xmd != nil {
			name = "XMD[" + j.xmd.name + "]"
			newH := func() hash.Hash { return j.xmd.h.New() }
			want, rerr = h2cexpand.XMD(newH, msg, dst, j.out)
			exp = expander.NewExpanderMD(j.xmd.h, dst)
			blk = j.xmd.h.Size()
		} else {
			name = "XOF[" + j.xof.name + "]"
			want, rerr = h2cexpand.XOF(j.xof.ref, int(j.xof.k), msg, dst, j.out)
			exp = expander.NewExpanderXOF(j.xof.id, j.xof.k, dst)
			blk = 168
		}
		id := fmt.Sprintf("%s/msg=%d/dst=%d/out=%d", name, j.mlen, j.dlen, j.out)
		if !r.Want(id) {
			return
		}
		r.Eval(2)
		r.Distinct(id)
		dstClass := "dst<=255"
		if j.dlen > 255 {
			dstClass = "dst>255"
			r.Count("oversize_dst_cases", 1)
		}
		abort := rerr != nil
		cls := c15OutClass(j.out, blk, abort)
		dstCopy := append([]byte{}, dst...)
		var got, got2 []byte
		p1, what := verifmc.Try(func() { got = exp.Expand(msg, uint(j.out)) })
		p2, _ := verifmc.Try(func() { got2 = exp.Expand(msg, uint(j.out)) })
		payload := map[string]interface{}{"expander": name, "msg_len": j.mlen, "dst_len": j.dlen, "len_in_bytes": j.out}
		kind := name[:3]
		key := func(c string) string {
			return fmt.Sprintf("C15|expander.%s.Expand|%s|%s|%s|%s", kind, c, cls, name, dstClass)
		}
		switch {
		case abort:
			r.Count("abort_cases", 1)
			if !p1 || !p2 {
				r.Outcome("abort-required:returned")
				coll.Add(i, 0, key("no-abort"), id, fmt.Sprintf("%s: RFC 9380 requires ABORT (len_in_bytes=%d), Expand returned %d bytes instead of panicking", id, j.out, len(got)), payload)
			} else {
				r.Outcome("abort-required:panicked")
			}
		case p1 || p2:
			r.Outcome("defined:panicked")
			coll.Add(i, 0, key("panic:"+verifmc.PanicClass(what)), id, id+": panic: "+what, payload)
		case !bytes.Equal(got, want):
			r.Outcome("defined:mismatch")
			coll.Add(i, 0, key("output-mismatch"), id, fmt.Sprintf("%s: got %s want %s", id, verifmc.Hex(got), verifmc.Hex(want)), payload)
		case !bytes.Equal(got2, want):
			r.Outcome("defined:second-call-mismatch")
			coll.Add(i, 0, key("second-call-differs"), id, fmt.Sprintf("%s: second Expand on the same object: got %s want %s", id, verifmc.Hex(got2), verifmc.Hex(want)), payload)
		default:
			r.Outcome("defined:equal")
		}
		if !bytes.Equal(dst, dstCopy) {
			coll.Add(i, 0, key("dst-modified"), id, id+": the caller's DST slice was modified", payload)
		}
		if i%997 == 3 {
			r.Sample(payload)
		}
	})
	coll.Flush(r)
	r.RequireCounter("oversize_dst_cases", 100)
	r.RequireCounter("abort_cases", 100)
}
