//go:build verif

package secretsharing_test

// C11 (schedules): one dealer object and one set of shares/commitments read by several goroutines.

import (
	"os"
	"testing"

	"github.com/cloudflare/circl/group"
	"github.com/cloudflare/circl/internal/verifmc"
	"github.com/cloudflare/circl/internal/verifmc/sched"
	"github.com/cloudflare/circl/secretsharing"
)

type c11SSShared struct {
	ss     secretsharing.SecretSharing
	shares []secretsharing.Share
	com    secretsharing.SecretCommitment
}

func c11SSScenarios() []sched.Scenario {
	var scs []sched.Scenario
	for _, g := range []group.Group{group.P256, group.Ristretto255} {
		g := g
		name := g.(interface{ String() string }).String()
		sb := func(s group.Scalar) []byte {
			b, err := s.MarshalBinary()
			if err != nil {
				panic(err)
			}
			return b
		}
		fresh := func() interface{} {
			// coefficients are fixed by building the dealer from shares of a known polynomial is not
			// possible through the API, so the dealer is created once per Setup from a constant reader;
			// ristretto255 ignores the reader, therefore only reader-independent results are returned.
			sec := g.NewScalar().SetUint64(424242)
			ss := secretsharing.New(verifmc.ConstReader(7), 2, sec)
			return &c11SSShared{ss: ss, shares: ss.Share(4), com: ss.CommitSecret()}
		}
		recover := func(idx ...int) func(interface{}) interface{} {
			return func(sh interface{}) interface{} {
				x := sh.(*c11SSShared)
				var sub []secretsharing.Share
				for _, i := range idx {
					sub = append(sub, x.shares[i])
				}
				s, err := secretsharing.Recover(2, sub)
				if err != nil {
					return err
				}
				return sb(s)
			}
		}
		verifyAll := func(sh interface{}) interface{} {
			x := sh.(*c11SSShared)
			ok := true
			for _, s := range x.shares {
				ok = ok && secretsharing.Verify(2, s, x.com)
			}
			return ok
		}
		shareAndVerify := func(sh interface{}) interface{} {
			x := sh.(*c11SSShared)
			s := x.ss.ShareWithID(g.NewScalar().SetUint64(9))
			return secretsharing.Verify(2, s, x.ss.CommitSecret())
		}
		scs = append(scs,
			sched.Scenario{Cost: 20, Name: "secretsharing/" + name + "/Recover||Recover||Verify", Setup: fresh,
				Threads: []func(interface{}) interface{}{recover(0, 1, 2), recover(3, 1, 0), verifyAll}},
			sched.Scenario{Cost: 20, Name: "secretsharing/" + name + "/ShareWithID+Commit||Verify", Setup: fresh,
				Threads: []func(interface{}) interface{}{shareAndVerify, verifyAll}})
	}
	return scs
}

func TestVerifC11_sched_secretsharing(t *testing.T) {
	if os.Getenv("VERIF_CONFIG") != "sched" {
		t.Skip("runs only under the instrumented configuration")
	}
	r := verifmc.Start(t, "C11", "sched_secretsharing")
	defer r.Finish()
	r.Rule("every schedule up to the completed preemption bound of 2-3 threads recovering / verifying from one shared dealer, share set and commitment; non-trivial = distinct scenario")
	sched.RunScenarios(r, c11SSScenarios(), 2)
}

func TestVerifC11_race_secretsharing(t *testing.T) {
	if os.Getenv("VERIF_CONFIG") != "race" {
		t.Skip("runs only under -race")
	}
	r := verifmc.Start(t, "C11", "race_secretsharing")
	defer r.Finish()
	r.Rule("same scenario bodies on free-running goroutines under the race detector")
	sched.FreeRun(r, c11SSScenarios(), r.Pick(10, 60))
}
