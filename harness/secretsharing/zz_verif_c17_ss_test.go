//go:build verif

package secretsharing_test

// C17 (Shamir / Feldman half): every set of t+1 or more distinct shares recovers
// exactly the secret, t or fewer are refused, every dealt share verifies against
// the dealer's commitment, a share with an altered value or identifier does not.
//
// Bounded exhaustive enumeration over (group, t, n, secret, subset, order) on the
// real package, compared with the big.Int model in verifref/shamir.

import (
	"crypto/elliptic"
	"fmt"
	"math/big"
	"os"
	"sort"
	"strings"
	"sync"
	"testing"

	"github.com/cloudflare/circl/group"
	"github.com/cloudflare/circl/internal/verifmc"
	"github.com/cloudflare/circl/internal/verifref/shamir"
	"github.com/cloudflare/circl/math/polynomial"
	"github.com/cloudflare/circl/secretsharing"
)

type c17G struct {
	name  string
	g     group.Group
	q     *big.Int
	size  int
	le    bool
	curve elliptic.Curve // nil: no independent group implementation at hand
}

func c17Groups() []c17G {
	return []c17G{
		{"P-256", group.P256, shamir.OrderP256, 32, false, elliptic.P256()},
		{"P-384", group.P384, shamir.OrderP384, 48, false, elliptic.P384()},
		{"P-521", group.P521, shamir.OrderP521, 66, false, elliptic.P521()},
		{"ristretto255", group.Ristretto255, shamir.OrderRistretto255, 32, true, nil},
	}
}

func c17Rev(b []byte) []byte {
	for i, j := 0, len(b)-1; i < j; i, j = i+1, j-1 {
		b[i], b[j] = b[j], b[i]
	}
	return b
}

// scalar builds a group scalar from its canonical byte encoding (no circl arithmetic involved).
func (G c17G) scalar(v *big.Int) group.Scalar {
	b := new(big.Int).Mod(v, G.q).FillBytes(make([]byte, G.size))
	if G.le {
		c17Rev(b)
	}
	s := G.g.NewScalar()
	if err := s.UnmarshalBinary(b); err != nil {
		panic("harness: cannot build scalar: " + err.Error())
	}
	return s
}

func (G c17G) big(s group.Scalar) *big.Int {
	b, err := s.MarshalBinary()
	if err != nil {
		panic("harness: cannot marshal scalar: " + err.Error())
	}
	b = append([]byte{}, b...)
	if G.le {
		c17Rev(b)
	}
	return new(big.Int).SetBytes(b)
}

type c17Secret struct {
	name string
	v    *big.Int
}

func c17Secrets(G c17G, seed int64) []c17Secret {
	out := []c17Secret{
		{"zero", big.NewInt(0)},
		{"one", big.NewInt(1)},
		{"q-1", new(big.Int).Sub(G.q, big.NewInt(1))},
		{"shake0", new(big.Int).Mod(new(big.Int).SetBytes(verifmc.Shake("c17-secret/"+G.name, G.size+8)), G.q)},
	}
	if seed != 0 {
		out = append(out, c17Secret{"seed", new(big.Int).Mod(new(big.Int).SetBytes(verifmc.Shake(fmt.Sprintf("c17-secret/%s/seed%d", G.name, seed), G.size+8)), G.q)})
	}
	return out
}

// c17Orders returns the orderings of 0..k-1 that are enumerated: all k! of them when
// k <= allUpTo, otherwise the k rotations and the reversal.
func c17Orders(k, allUpTo int) [][]int {
	if k == 0 {
		return [][]int{{}}
	}
	if k <= allUpTo {
		var out [][]int
		p := make([]int, k)
		for i := range p {
			p[i] = i
		}
		var rec func(i int)
		rec = func(i int) {
			if i == k {
				out = append(out, append([]int{}, p...))
				return
			}
			for j := i; j < k; j++ {
				p[i], p[j] = p[j], p[i]
				rec(i + 1)
				p[i], p[j] = p[j], p[i]
			}
		}
		rec(0)
		return out
	}
	var out [][]int
	for r := 0; r < k; r++ {
		o := make([]int, k)
		for i := range o {
			o[i] = (i + r) % k
		}
		out = append(out, o)
	}
	o := make([]int, k)
	for i := range o {
		o[i] = k - 1 - i
	}
	return append(out, o)
}

func c17Members(mask, n int) []int {
	var m []int
	for i := 0; i < n; i++ {
		if mask>>uint(i)&1 == 1 {
			m = append(m, i)
		}
	}
	return m
}

func c17WantPrefix(r *verifmc.Run, prefix string) bool {
	return !r.Replaying() || strings.HasPrefix(r.ReplayCase(), prefix) || strings.HasPrefix(prefix, r.ReplayCase())
}

// c17Deal shares a secret and returns the shares together with their big.Int image.
type c17Dealt struct {
	ss     secretsharing.SecretSharing
	shares []secretsharing.Share
	ids    []*big.Int
	vals   []*big.Int
}

func (d *c17Dealt) add(G c17G, sh secretsharing.Share) {
	d.shares = append(d.shares, sh)
	d.ids = append(d.ids, G.big(sh.ID))
	d.vals = append(d.vals, G.big(sh.Value))
}

// c17CheckRecover runs Recover on every enumerated ordered subset of d.shares.
func c17CheckRecover(r *verifmc.Run, ov *verifmc.OrderedViolations, base []int, sample bool, G c17G, t int, sec c17Secret, d *c17Dealt, idClass, tag string, allUpTo int, sizes func(s int) bool) {
	n := len(d.shares)
	// reference verdict on the dealt shares themselves: the first t+1 determine the polynomial
	dealtOK := true
	if n >= t+1 {
		for i := 0; i < n; i++ {
			v, err := shamir.At(d.ids[:t+1], d.vals[:t+1], d.ids[i], G.q)
			if err != nil || v.Cmp(d.vals[i]) != 0 {
				dealtOK = false
			}
		}
		v, err := shamir.At(d.ids[:t+1], d.vals[:t+1], big.NewInt(0), G.q)
		if err != nil || v.Cmp(sec.v) != 0 {
			dealtOK = false
		}
	}
	cause := "recover"
	if !dealtOK {
		cause = "dealt-shares-not-on-a-degree-t-polynomial-through-the-secret"
	}
	want := G.scalar(sec.v)
	for mask := 0; mask < 1<<uint(n); mask++ {
		mem := c17Members(mask, n)
		if sizes != nil && !sizes(len(mem)) {
			continue
		}
		for _, ord := range c17Orders(len(mem), allUpTo) {
			sub := make([]secretsharing.Share, len(mem))
			idl := make([]string, len(mem))
			xs := make([]*big.Int, len(mem))
			ys := make([]*big.Int, len(mem))
			for i, o := range ord {
				sub[i] = d.shares[mem[o]]
				xs[i], ys[i] = d.ids[mem[o]], d.vals[mem[o]]
				if idClass == "ids-1..n" {
					idl[i] = xs[i].String()
				} else {
					idl[i] = fmt.Sprintf("#%d", mem[o])
				}
			}
			caseID := fmt.Sprintf("%s|S=%s", tag, strings.Join(idl, ","))
			if !r.Want(caseID) {
				continue
			}
			rank := append(append([]int{}, base...), len(mem))
			for _, o := range ord {
				rank = append(rank, mem[o])
			}
			var got group.Scalar
			var err error
			r.Eval(1)
			r.Distinct(caseID)
			panicked, what := verifmc.Try(func() { got, err = secretsharing.Recover(uint(t), sub) })
			replay := map[string]interface{}{"group": G.name, "t": t, "n": n, "secret": sec.v.Text(16), "ids": idl, "share_ids_hex": c17HexList(xs), "share_values_hex": c17HexList(ys)}
			if panicked {
				r.Outcome("panic")
				ov.Add(rank, fmt.Sprintf("C17|secretsharing.Recover|panic:%s|%s", verifmc.PanicClass(what), idClass), caseID,
					fmt.Sprintf("%s: Recover panicked on %d distinct shares: %s", caseID, len(sub), what), replay)
				continue
			}
			if len(mem) >= t+1 {
				r.Count("qualified_sets", 1)
				refv, rerr := shamir.At(xs[:len(xs)], ys[:len(ys)], big.NewInt(0), G.q)
				refOK := rerr == nil && refv.Cmp(sec.v) == 0
				switch {
				case err != nil:
					r.Outcome("qualified:error")
					ov.Add(rank, "C17|secretsharing.Recover|qualified-set-refused|"+idClass, caseID,
						fmt.Sprintf("%s: %d shares (> t=%d) were refused: %v", caseID, len(sub), t, err), replay)
				case got == nil || !got.IsEqual(want) || G.big(got).Cmp(sec.v) != 0:
					r.Outcome("qualified:wrong-secret")
					ov.Add(rank, fmt.Sprintf("C17|secretsharing.Recover|qualified-set-wrong-secret|%s|%s", cause, idClass), caseID,
						fmt.Sprintf("%s: recovered %v, secret is %s (reference interpolation of the same shares gives the secret: %v)", caseID, got, sec.v.Text(16), refOK), replay)
				default:
					r.Outcome("qualified:secret")
					r.Count("qualified_recovered", 1)
					if len(mem) == t+1 {
						r.Count("exactly_t_plus_1_recovered", 1)
					}
				}
			} else {
				r.Count("unqualified_sets", 1)
				if err == nil {
					r.Outcome("unqualified:accepted")
					ov.Add(rank, "C17|secretsharing.Recover|unqualified-set-accepted|"+idClass, caseID,
						fmt.Sprintf("%s: %d shares (<= t=%d) were not refused; returned %v", caseID, len(sub), t, got), replay)
				} else {
					r.Outcome("unqualified:refused")
					r.Count("unqualified_refused", 1)
				}
			}
			if sample && len(mem) == t+1 {
				ov.AddSample(caseID, map[string]interface{}{"case": caseID, "t": t, "shares": len(sub), "recovered": err == nil})
			}
		}
	}
}

func c17HexList(v []*big.Int) []string {
	o := make([]string, len(v))
	for i := range v {
		o[i] = v[i].Text(16)
	}
	return o
}

type c17Job struct {
	G    c17G
	t, n int
	sec  c17Secret
}

func c17Jobs(r *verifmc.Run, maxN int) []c17Job {
	var jobs []c17Job
	for _, G := range c17Groups() {
		for n := 1; n <= maxN; n++ {
			for t := 0; t < n; t++ {
				for _, sec := range c17Secrets(G, r.Seed()) {
					jobs = append(jobs, c17Job{G, t, n, sec})
				}
			}
		}
	}
	return jobs
}

func (j c17Job) rank() []int {
	gi, si := 0, 0
	for i, G := range c17Groups() {
		if G.name == j.G.name {
			gi = i
		}
	}
	for i, sc := range c17Secrets(j.G, 0) {
		if sc.name == j.sec.name {
			si = i
		}
	}
	if j.sec.name == "seed" {
		si = 9
	}
	return []int{j.n, j.t, gi, si}
}

func (j c17Job) tag() string {
	return fmt.Sprintf("%s/t=%d/n=%d/secret=%s", j.G.name, j.t, j.n, j.sec.name)
}

// TestVerifC17_shamir: Share(n) with identifiers 1..n, every subset, enumerated orders.
func TestVerifC17_shamir(t *testing.T) {
	c17DefaultConfigOnly(t)
	r := verifmc.Start(t, "C17", "shamir")
	defer r.Finish()
	ov := verifmc.NewOrderedViolations(r)
	defer ov.Flush()
	maxN := r.Pick(6, 8)
	allUpTo := r.Pick(4, 5)
	r.Rule("groups {P-256,P-384,P-521,ristretto255} x all (t,n) with 0<=t<n<=maxN x secrets {0,1,q-1,SHAKE} x every subset of the n dealt shares (ids 1..n, the empty set included) " +
		"x every ordering of the subset when it has <= allUpTo members, else its rotations and its reversal; non-trivial = distinct (group,t,n,secret,ordered id list)")
	r.Set("max_n", maxN)
	r.Set("all_orders_up_to_size", allUpTo)
	r.Set("note", "ristretto255 draws the polynomial coefficients from crypto/rand whatever reader is passed (group.Ristretto255.RandomScalar ignores it); the oracle holds for any coefficients")
	jobs := c17Jobs(r, maxN)
	r.Set("dealings", len(jobs))
	verifmc.ParallelFor(len(jobs), func(i int) {
		j := jobs[i]
		tag := j.tag()
		if !c17WantPrefix(r, tag) || r.Expired() {
			return
		}
		var d c17Dealt
		panicked, what := verifmc.Try(func() {
			d.ss = secretsharing.New(verifmc.NewDetReader("c17-coeff/"+tag), uint(j.t), j.G.scalar(j.sec.v))
			for _, sh := range d.ss.Share(uint(j.n)) {
				d.add(j.G, sh)
			}
		})
		if panicked {
			ov.Add(j.rank(), "C17|secretsharing.Share|panic:"+verifmc.PanicClass(what), tag, tag+": New/Share panicked: "+what, nil)
			return
		}
		if len(d.shares) != j.n {
			ov.Add(j.rank(), "C17|secretsharing.Share|wrong-share-count", tag, fmt.Sprintf("%s: Share(%d) returned %d shares", tag, j.n, len(d.shares)), nil)
			return
		}
		for k := range d.ids {
			if d.ids[k].Cmp(big.NewInt(int64(k+1))) != 0 {
				ov.Add(j.rank(), "C17|secretsharing.Share|identifier-not-1..n", tag, fmt.Sprintf("%s: share %d has identifier %s", tag, k, d.ids[k]), nil)
			}
		}
		c17CheckRecover(r, ov, j.rank(), tag == "P-256/t=1/n=3/secret=shake0", j.G, j.t, j.sec, &d, "ids-1..n", tag, allUpTo, nil)
	})
	r.RequireCounter("qualified_recovered", 1000)
	r.RequireCounter("exactly_t_plus_1_recovered", 500)
	r.RequireCounter("unqualified_refused", 500)
}

// c17IDAlphabet: arbitrary non-zero identifiers, boundary values of the scalar field and SHAKE-derived ones.
func c17IDAlphabet(G c17G, seed int64) []*big.Int {
	q := G.q
	half := new(big.Int).Rsh(new(big.Int).Add(q, big.NewInt(1)), 1)
	ids := []*big.Int{
		big.NewInt(2),
		new(big.Int).Sub(q, big.NewInt(1)),
		new(big.Int).Sub(q, big.NewInt(2)),
		half,
		new(big.Int).Lsh(big.NewInt(1), 64),
		new(big.Int).Mod(new(big.Int).SetBytes(verifmc.Shake("c17-id0/"+G.name, G.size+8)), q),
		new(big.Int).Mod(new(big.Int).SetBytes(verifmc.Shake("c17-id1/"+G.name, G.size+8)), q),
	}
	if seed != 0 {
		ids = append(ids, new(big.Int).Mod(new(big.Int).SetBytes(verifmc.Shake(fmt.Sprintf("c17-id/%s/seed%d", G.name, seed), G.size+8)), q))
	}
	return ids
}

// TestVerifC17_shamir_ids: shares made with ShareWithID on arbitrary non-zero identifiers.
func TestVerifC17_shamir_ids(t *testing.T) {
	c17DefaultConfigOnly(t)
	r := verifmc.Start(t, "C17", "shamir_ids")
	defer r.Finish()
	ov := verifmc.NewOrderedViolations(r)
	defer ov.Flush()
	maxT := r.Pick(4, 6)
	r.Rule("groups x t in 0..maxT x secrets x ShareWithID on the 7 identifiers {2, q-1, q-2, (q+1)/2, 2^64, SHAKE0, SHAKE1}: every subset of the 7 shares with t, t+1 or t+2 members (and all 7), " +
		"every ordering up to 3 members, else rotations and reversal; the zero identifier is outside the property (documented panic) and only observed; " +
		"then the same dealing again with all identifiers passed through ONE scalar object rewritten in place between the calls (SetUint64/SetBigInt, Set, Add), the caller's id scalar and one returned share overwritten afterwards (the secret scalar passed to New is overwritten in both dealings): " +
		"every other share must be unchanged, verify against CommitSecret, and pass the same subset enumeration; non-trivial = distinct (group,t,secret,dealing style,ordered index list)")
	r.Set("max_t", maxT)
	type job struct {
		G   c17G
		t   int
		sec c17Secret
	}
	var jobs []job
	for _, G := range c17Groups() {
		for tt := 0; tt <= maxT; tt++ {
			for _, sec := range c17Secrets(G, r.Seed()) {
				jobs = append(jobs, job{G, tt, sec})
			}
		}
	}
	verifmc.ParallelFor(len(jobs), func(i int) {
		j := jobs[i]
		tag := fmt.Sprintf("%s/t=%d/ids=arbitrary/secret=%s", j.G.name, j.t, j.sec.name)
		if !c17WantPrefix(r, tag) || r.Expired() {
			return
		}
		ids := c17IDAlphabet(j.G, r.Seed())
		var d c17Dealt
		panicked, what := verifmc.Try(func() {
			secObj := j.G.scalar(j.sec.v)
			d.ss = secretsharing.New(verifmc.NewDetReader("c17-coeff/"+tag), uint(j.t), secObj)
			secObj.SetUint64(12345) // the caller's secret variable is reused for something else
			for _, id := range ids {
				d.add(j.G, d.ss.ShareWithID(j.G.scalar(id)))
			}
		})
		if panicked {
			ov.Add([]int{7, j.t, i}, "C17|secretsharing.ShareWithID|panic:"+verifmc.PanicClass(what), tag, tag+": New/ShareWithID panicked on a non-zero identifier: "+what, nil)
			return
		}
		for k := range ids {
			if d.ids[k].Cmp(ids[k]) != 0 {
				ov.Add([]int{7, j.t, i}, "C17|secretsharing.ShareWithID|identifier-changed", tag, fmt.Sprintf("%s: share for identifier %s carries %s", tag, ids[k].Text(16), d.ids[k].Text(16)), nil)
			}
		}
		c17CheckRecover(r, ov, []int{7, j.t, i}, tag == "ristretto255/t=2/ids=arbitrary/secret=q-1", j.G, j.t, j.sec, &d, "ids-arbitrary", tag, 3, func(s int) bool {
			return s == j.t || s == j.t+1 || s == j.t+2 || s == len(ids)
		})
		// zero identifier: documented to panic; nothing is demanded, the behaviour is recorded.
		p, _ := verifmc.Try(func() { d.ss.ShareWithID(j.G.g.NewScalar()) })
		r.Outcome(map[bool]string{true: "zero-id:panic(documented)", false: "zero-id:share-returned"}[p])

		// The same identifiers dealt through ONE scalar object that the caller rewrites in place between the calls
		// (SetUint64 / Set / Add), then keeps using; the secret object handed to New and one returned share are
		// overwritten as well. Dealt shares are values of their own: the other shares must be exactly those above.
		tag2 := fmt.Sprintf("%s/t=%d/ids=arbitrary-through-one-reused-scalar/secret=%s", j.G.name, j.t, j.sec.name)
		if !c17WantPrefix(r, tag2) {
			return
		}
		var d2 c17Dealt
		var coms secretsharing.SecretCommitment
		var raw []secretsharing.Share
		panicked, what = verifmc.Try(func() {
			d2.ss = d.ss // the same polynomial (ristretto255 would draw fresh coefficients in a second New)
			id := j.G.g.NewScalar()
			one := j.G.g.NewScalar().SetUint64(1)
			for k, v := range ids {
				switch k % 3 {
				case 0:
					if v.IsUint64() {
						id.SetUint64(v.Uint64())
					} else {
						id.SetBigInt(v)
					}
				case 1:
					id.Set(j.G.scalar(v))
				default:
					id.Add(j.G.scalar(new(big.Int).Sub(v, big.NewInt(1))), one)
				}
				raw = append(raw, d2.ss.ShareWithID(id))
			}
			// a victim share for identifier 3, dealt through the same object, then overwritten by its holder
			id.SetUint64(3)
			victim := d2.ss.ShareWithID(id)
			id.SetUint64(7) // the caller goes on using its variable
			id.Add(id, one)
			victim.ID.SetUint64(5)
			victim.Value.SetUint64(9)
			coms = d2.ss.CommitSecret()
		})
		if panicked {
			ov.Add([]int{7, j.t, i, 1}, "C17|secretsharing.ShareWithID|panic:"+verifmc.PanicClass(what)+"|reused-id-object", tag2, tag2+": New/ShareWithID/CommitSecret panicked: "+what, nil)
			return
		}
		for _, sh := range raw { // image taken after all the rewriting
			d2.add(j.G, sh)
		}
		intact := true
		for k := range ids {
			r.Eval(1)
			r.Distinct(tag2, "dealt", k)
			if d2.ids[k].Cmp(ids[k]) != 0 || d2.vals[k].Cmp(d.vals[k]) != 0 {
				intact = false
				ov.Add([]int{7, j.t, i, 1, k}, "C17|secretsharing.ShareWithID|dealt-share-changes-when-the-caller-reuses-its-scalar", fmt.Sprintf("%s|share#%d", tag2, k),
					fmt.Sprintf("%s: share #%d was dealt for identifier %s (value %s); after the caller rewrote its own id scalar and another share, it reads (id %s, value %s)",
						tag2, k, ids[k].Text(16), d.vals[k].Text(16), d2.ids[k].Text(16), d2.vals[k].Text(16)),
					map[string]interface{}{"group": j.G.name, "t": j.t, "secret": j.sec.v.Text(16), "identifier": ids[k].Text(16)})
			} else {
				r.Count("shares_intact_after_caller_reuses_its_scalars", 1)
			}
			var ok bool
			if p, what := verifmc.Try(func() { ok = secretsharing.Verify(uint(j.t), raw[k], coms) }); p {
				ov.Add([]int{7, j.t, i, 2, k}, "C17|secretsharing.Verify|panic:"+verifmc.PanicClass(what)+"|reused-id-object", fmt.Sprintf("%s|share#%d|dealt", tag2, k), tag2+": Verify panicked: "+what, nil)
			} else if !ok {
				ov.Add([]int{7, j.t, i, 2, k}, "C17|secretsharing.Verify|dealt-share-rejected|dealt-through-reused-id-object", fmt.Sprintf("%s|share#%d|dealt", tag2, k),
					fmt.Sprintf("%s: share #%d dealt for identifier %s does not verify against the dealer's commitment", tag2, k, ids[k].Text(16)), nil)
			} else {
				r.Count("dealt_through_reused_object_verified", 1)
			}
		}
		r.Outcome(fmt.Sprintf("reused-id-object:intact=%v", intact))
		c17CheckRecover(r, ov, []int{7, j.t, i, 3}, false, j.G, j.t, j.sec, &d2, "ids-arbitrary-through-one-reused-scalar", tag2, 3, func(s int) bool {
			return s == j.t || s == j.t+1 || s == j.t+2 || s == len(ids)
		})
	})
	r.RequireCounter("qualified_recovered", 1000)
	r.RequireCounter("unqualified_refused", 200)
	r.RequireCounter("shares_intact_after_caller_reuses_its_scalars", 500)
	r.RequireCounter("dealt_through_reused_object_verified", 500)
}

// TestVerifC17_shamir_duplicates: sequences of shares WITH repetitions. A sequence holding only t or fewer distinct
// shares is unqualified whatever its length: Recover must refuse it (documented: panic on duplicated identifiers; an
// error is as good) and never hand out a value. With t+1 or more distinct shares plus repetitions it may refuse or
// return exactly the secret, never another value.
func TestVerifC17_shamir_duplicates(t *testing.T) {
	c17DefaultConfigOnly(t)
	r := verifmc.Start(t, "C17", "shamir_duplicates")
	defer r.Finish()
	ov := verifmc.NewOrderedViolations(r)
	defer ov.Flush()
	maxN := r.Pick(4, 5)
	r.Rule("groups x all (t,n), 0<=t<n<=maxN x secrets x EVERY sequence of length t+1 and t+2 over the n dealt shares in which some share occurs twice (repetition in the first, a middle, the last used position, or beyond the first t+1), " +
		"plus every forged pair (identifier of share q, value of share p) put in place of share p among t+1 distinct shares: <= t distinct shares => Recover panics or returns an error; >= t+1 distinct => refusal or exactly the secret; " +
		"and polynomial.NewLagrangePolynomial with 2..5 nodes and a repeated node at every pair of positions must panic as documented; non-trivial = distinct (group,t,n,secret,index sequence)")
	r.Set("max_n", maxN)
	jobs := c17Jobs(r, maxN)
	verifmc.ParallelFor(len(jobs), func(ji int) {
		j := jobs[ji]
		G := j.G
		tag := j.tag() + "/with-repetitions"
		if !c17WantPrefix(r, tag) || r.Expired() {
			return
		}
		var d c17Dealt
		if p, what := verifmc.Try(func() {
			d.ss = secretsharing.New(verifmc.NewDetReader("c17-coeff/"+j.tag()), uint(j.t), G.scalar(j.sec.v))
			for _, sh := range d.ss.Share(uint(j.n)) {
				d.add(G, sh)
			}
		}); p {
			ov.Add(j.rank(), "C17|secretsharing.Share|panic:"+verifmc.PanicClass(what), tag, tag+": New/Share panicked: "+what, nil)
			return
		}
		want := G.scalar(j.sec.v)
		run := func(caseID, posClass string, rank []int, sub []secretsharing.Share, distinctIDs int) {
			if !r.Want(caseID) {
				return
			}
			var got group.Scalar
			var err error
			r.Eval(1)
			r.Distinct(caseID)
			panicked, _ := verifmc.Try(func() { got, err = secretsharing.Recover(uint(j.t), sub) })
			refused := panicked || err != nil
			rp := map[string]interface{}{"group": G.name, "t": j.t, "n": j.n, "secret": j.sec.v.Text(16), "sequence": caseID[strings.LastIndex(caseID, "|")+1:]}
			if distinctIDs <= j.t {
				r.Count("unqualified_sequences_with_repetition", 1)
				if posClass == "repeats-in-last-used-position" {
					r.Count("unqualified_repetition_in_last_used_position", 1)
				}
				if refused {
					r.Outcome(map[bool]string{true: "unqualified:panic(documented)", false: "unqualified:error"}[panicked])
					r.Count("unqualified_refused", 1)
					return
				}
				r.Outcome("unqualified:value-returned")
				ov.Add(rank, "C17|secretsharing.Recover|unqualified-sequence-with-repeated-share-accepted|"+posClass, caseID,
					fmt.Sprintf("%s: only %d distinct shares (t=%d) padded with a repeated identifier; Recover returned %v with a nil error instead of refusing", caseID, distinctIDs, j.t, got), rp)
				return
			}
			r.Count("qualified_sequences_with_repetition", 1)
			switch {
			case refused:
				r.Outcome("qualified+repetition:refused")
			case got != nil && got.IsEqual(want) && G.big(got).Cmp(j.sec.v) == 0:
				r.Outcome("qualified+repetition:secret")
				r.Count("qualified_with_repetition_recovered", 1)
			default:
				r.Outcome("qualified+repetition:wrong-value")
				ov.Add(rank, "C17|secretsharing.Recover|qualified-sequence-with-repetition-wrong-secret|"+posClass, caseID,
					fmt.Sprintf("%s: %d distinct shares (t=%d) plus a repetition: Recover returned %v, neither the secret nor a refusal", caseID, distinctIDs, j.t, got), rp)
			}
		}
		for _, L := range []int{j.t + 1, j.t + 2} {
			sizes := make([]int, L)
			for i := range sizes {
				sizes[i] = j.n
			}
			verifmc.Product(sizes, func(idx []int) bool {
				seen := map[int]bool{}
				for _, x := range idx {
					seen[x] = true
				}
				if len(seen) == L {
					return true // no repetition: the shamir unit
				}
				used := idx[:j.t+1]
				posClass := "repeats-beyond-the-first-t+1"
				lastRep, earlyRep := false, false
				for a := 0; a < len(used); a++ {
					for b := a + 1; b < len(used); b++ {
						if used[a] == used[b] {
							if b == len(used)-1 {
								lastRep = true
							} else {
								earlyRep = true
							}
						}
					}
				}
				switch {
				case lastRep && !earlyRep:
					posClass = "repeats-in-last-used-position"
				case earlyRep:
					posClass = "repeats-within-the-first-t-positions"
				}
				sub := make([]secretsharing.Share, L)
				parts := make([]string, L)
				rank := append(j.rank(), L)
				for i, x := range idx {
					sub[i] = d.shares[x]
					parts[i] = fmt.Sprint(x + 1)
					rank = append(rank, x)
				}
				run(fmt.Sprintf("%s|S=%s", tag, strings.Join(parts, ",")), posClass, rank, sub, len(seen))
				return true
			})
		}
		// same identifier, different value
		for p := 0; p <= j.t; p++ {
			for q := 0; q <= j.t; q++ {
				if p == q {
					continue
				}
				sub := make([]secretsharing.Share, j.t+1)
				copy(sub, d.shares[:j.t+1])
				sub[p] = secretsharing.Share{ID: d.shares[q].ID.Copy(), Value: d.shares[p].Value.Copy()}
				hi := p
				if q > hi {
					hi = q
				}
				posClass := "repeats-within-the-first-t-positions"
				if hi == j.t {
					posClass = "repeats-in-last-used-position"
				}
				run(fmt.Sprintf("%s|forged=position%d-carries-id-of-share%d", tag, p, q+1), posClass+"|same-id-different-value", append(j.rank(), 99, p, q), sub, j.t)
			}
		}
	})
	// the interpolation constructor itself
	for gi, G := range c17Groups() {
		for m := 2; m <= 5; m++ {
			for a := 0; a < m; a++ {
				for b := a + 1; b < m; b++ {
					caseID := fmt.Sprintf("%s/lagrange-nodes=%d/node%d=node%d", G.name, m, b, a)
					if !r.Want(caseID) {
						continue
					}
					x := make([]group.Scalar, m)
					y := make([]group.Scalar, m)
					for i := range x {
						x[i] = G.scalar(big.NewInt(int64(10 + i)))
						y[i] = G.scalar(big.NewInt(int64(100 + 7*i)))
					}
					x[b] = x[a].Copy()
					r.Eval(1)
					r.Distinct(caseID)
					var val group.Scalar
					panicked, _ := verifmc.Try(func() {
						l := polynomial.NewLagrangePolynomial(x, y)
						val = l.Evaluate(G.g.NewScalar())
					})
					if panicked {
						r.Outcome("lagrange-repeated-node:panic(documented)")
						r.Count("lagrange_repeated_node_refused", 1)
						continue
					}
					r.Outcome("lagrange-repeated-node:accepted")
					cls := "earlier-positions"
					if b == m-1 {
						cls = "last-position"
					}
					ov.Add([]int{0, m, gi, a, b}, "C17|polynomial.NewLagrangePolynomial|repeated-node-accepted|"+cls, caseID,
						fmt.Sprintf("%s: nodes %d and %d are equal, the constructor did not panic (documented) and Evaluate(0) returned %v", caseID, a, b, val), nil)
				}
			}
		}
	}
	r.RequireCounter("unqualified_refused", 1000)
	r.RequireCounter("unqualified_repetition_in_last_used_position", 300)
	r.RequireCounter("qualified_with_repetition_recovered", 300)
	r.RequireCounter("lagrange_repeated_node_refused", 80)
}

// TestVerifC17_feldman: Verify against CommitSecret for dealt and altered shares / commitments.
func TestVerifC17_feldman(t *testing.T) {
	r := verifmc.Start(t, "C17", "feldman")
	defer r.Finish()
	ov := verifmc.NewOrderedViolations(r)
	defer ov.Flush()
	maxN := r.Pick(5, 7)
	r.Rule("groups x all (t,n), 0<=t<n<=maxN x secrets: every dealt share (ids 1..n) and 3 ShareWithID shares must verify; every single alteration of each share " +
		"(value+1, value-1, value:=0, value:=another share's, id+1, id-1, id:=q-id, id:=another share's, id<->value) and of the commitment (each c[j] := c[j]+G, identity, c[j+1]; dropped / duplicated last entry) " +
		"must not verify unless the altered pair still satisfies value = f(id) (decided by the big.Int model; those coincidences are counted, nothing is demanded); non-trivial = distinct (group,t,n,secret,share,alteration)")
	r.Set("max_n", maxN)
	jobs := c17Jobs(r, maxN)
	verifmc.ParallelFor(len(jobs), func(i int) {
		j := jobs[i]
		G := j.G
		tag := j.tag()
		if !c17WantPrefix(r, tag) || r.Expired() {
			return
		}
		nseq := 0
		seq := func() int { nseq++; return nseq }
		var d c17Dealt
		var coms secretsharing.SecretCommitment
		panicked, what := verifmc.Try(func() {
			d.ss = secretsharing.New(verifmc.NewDetReader("c17-coeff/"+tag), uint(j.t), G.scalar(j.sec.v))
			for _, sh := range d.ss.Share(uint(j.n)) {
				d.add(G, sh)
			}
			for _, id := range c17IDAlphabet(G, 0)[:3] {
				d.add(G, d.ss.ShareWithID(G.scalar(id)))
			}
			coms = d.ss.CommitSecret()
		})
		if panicked {
			ov.Add(append(j.rank(), seq()), "C17|secretsharing.CommitSecret|panic:"+verifmc.PanicClass(what), tag, tag+": New/Share/CommitSecret panicked: "+what, nil)
			return
		}
		// model polynomial from the first t+1 dealt shares (n >= t+1 always)
		coef, err := shamir.Coefficients(d.ids[:j.t+1], d.vals[:j.t+1], G.q)
		if err != nil {
			t.Errorf("harness: reference interpolation failed: %v", err)
			return
		}
		onPoly := func(c []*big.Int, id, val *big.Int) bool { return shamir.Eval(c, id, G.q).Cmp(val) == 0 }
		verify := func(caseID, kind string, tt uint, sh secretsharing.Share, c secretsharing.SecretCommitment, want bool, replay interface{}) {
			if !r.Want(caseID) {
				return
			}
			var got bool
			r.Eval(1)
			r.Distinct(caseID)
			if p, what := verifmc.Try(func() { got = secretsharing.Verify(tt, sh, c) }); p {
				r.Outcome(kind + ":panic")
				ov.Add(append(j.rank(), seq()), fmt.Sprintf("C17|secretsharing.Verify|panic:%s|%s", verifmc.PanicClass(what), kind), caseID, caseID+": Verify panicked: "+what, replay)
				return
			}
			r.Outcome(fmt.Sprintf("%s:%v", kind, got))
			switch {
			case want && !got:
				ov.Add(append(j.rank(), seq()), "C17|secretsharing.Verify|dealt-share-rejected|"+kind, caseID, caseID+": a share dealt by the committed polynomial does not verify", replay)
			case !want && got:
				ov.Add(append(j.rank(), seq()), "C17|secretsharing.Verify|altered-accepted|"+kind, caseID, caseID+": Verify accepted "+map[bool]string{true: "a share whose identifier is zero", false: "although value != f(id) for the committed polynomial"}[strings.HasSuffix(kind, "zero-identifier")], replay)
			case want:
				r.Count("dealt_verified", 1)
			default:
				r.Count("altered_rejected", 1)
			}
		}
		one := big.NewInt(1)
		mod := func(v *big.Int) *big.Int { return v.Mod(v, G.q) }
		// optional independent look at the commitments (counter only: the statement does not fix their form)
		if G.curve != nil && len(coms) == j.t+1 {
			for k, a := range coef {
				b, _ := coms[k].MarshalBinary()
				if a.Sign() == 0 {
					if coms[k].IsIdentity() {
						r.Count("commitments_equal_stdlib_scalarbasemult", 1)
					}
					continue
				}
				x, y := G.curve.ScalarBaseMult(a.Bytes())
				if string(b) == string(elliptic.Marshal(G.curve, x, y)) {
					r.Count("commitments_equal_stdlib_scalarbasemult", 1)
				} else {
					r.Count("commitments_differ_from_stdlib_scalarbasemult", 1)
				}
			}
		}
		for k := range d.shares {
			sh := d.shares[k]
			id, val := d.ids[k], d.vals[k]
			rp := map[string]interface{}{"group": G.name, "t": j.t, "n": j.n, "secret": j.sec.v.Text(16), "share_id": id.Text(16), "share_value": val.Text(16)}
			base := fmt.Sprintf("%s|share#%d", tag, k)
			if !onPoly(coef, id, val) {
				// the dealt shares do not lie on one polynomial: that is reported by the shamir unit; the oracle here needs it
				ov.Add(append(j.rank(), seq()), "C17|secretsharing.Share|dealt-shares-not-on-a-degree-t-polynomial", base, base+": dealt share is not on the polynomial through the first t+1 shares", rp)
				continue
			}
			verify(base+"|dealt", "dealt", uint(j.t), sh, coms, true, rp)
			other := (k + 1) % len(d.shares)
			type alt struct {
				name    string
				id, val *big.Int
			}
			alts := []alt{
				{"value+1", id, mod(new(big.Int).Add(val, one))},
				{"value-1", id, mod(new(big.Int).Sub(val, one))},
				{"value=0", id, big.NewInt(0)},
				{"value=other-share's", id, d.vals[other]},
				{"id+1", mod(new(big.Int).Add(id, one)), val},
				{"id-1", mod(new(big.Int).Sub(id, one)), val},
				{"id=q-id", mod(new(big.Int).Sub(G.q, id)), val},
				{"id=other-share's", d.ids[other], val},
				{"id<->value", val, id},
			}
			for _, a := range alts {
				caseID := base + "|" + a.name
				if a.id.Cmp(id) == 0 && a.val.Cmp(val) == 0 {
					r.Count("alteration_is_identity", 1)
					continue
				}
				if a.id.Sign() != 0 && onPoly(coef, a.id, a.val) {
					// e.g. t = 0: f is constant, every identifier carries the same value
					r.Count("altered_pair_still_on_polynomial", 1)
					continue
				}
				kind := "share-" + a.name
				if a.id.Sign() == 0 {
					// identifiers are never zero (package documentation; ShareWithID panics, Verify is documented to refuse):
					// the point at zero is the secret itself
					r.Count("altered_to_zero_id", 1)
					kind += "=zero-identifier"
				}
				verify(caseID, kind, uint(j.t), secretsharing.Share{ID: G.scalar(a.id), Value: G.scalar(a.val)}, coms, false, rp)
			}
			// commitment alterations against the honest share
			if len(coms) != j.t+1 {
				continue // already reported through the dealt case
			}
			for c := range coms {
				mk := func(e group.Element) secretsharing.SecretCommitment {
					cc := make(secretsharing.SecretCommitment, len(coms))
					for x := range coms {
						cc[x] = coms[x].Copy()
					}
					cc[c] = e
					return cc
				}
				withCoef := func(v *big.Int) []*big.Int {
					cc := append([]*big.Int{}, coef...)
					cc[c] = v
					return cc
				}
				type calt struct {
					name string
					e    group.Element
					co   []*big.Int
				}
				calts := []calt{
					{"c[j]+G", G.g.NewElement().Add(coms[c], G.g.Generator()), withCoef(mod(new(big.Int).Add(coef[c], one)))},
					{"c[j]=identity", G.g.Identity(), withCoef(big.NewInt(0))},
					{"c[j]=c[j+1]", coms[(c+1)%len(coms)].Copy(), withCoef(coef[(c+1)%len(coms)])},
				}
				for _, a := range calts {
					if onPoly(a.co, id, val) {
						r.Count("altered_commitment_still_matches", 1)
						continue
					}
					verify(fmt.Sprintf("%s|%s,j=%d", base, a.name, c), "commitment-"+a.name, uint(j.t), sh, mk(a.e), false, rp)
				}
			}
			// wrong number of commitments: the vector commits to another polynomial (one coefficient dropped, or the
			// last one repeated as coefficient of x^(t+1)); nothing is demanded when that polynomial still passes through the share
			if ext := append(append([]*big.Int{}, coef...), coef[len(coef)-1]); onPoly(ext, id, val) {
				r.Count("altered_commitment_still_matches", 1)
			} else {
				dup := append(append(secretsharing.SecretCommitment{}, coms...), coms[len(coms)-1])
				verify(base+"|commitment-extended", "commitment-extended", uint(j.t), sh, dup, false, rp)
			}
			if onPoly(coef[:len(coef)-1], id, val) {
				r.Count("altered_commitment_still_matches", 1)
			} else {
				verify(base+"|commitment-truncated", "commitment-truncated", uint(j.t), sh, coms[:len(coms)-1], false, rp)
			}
			// honest share and honest commitment under another threshold: the statement does not say; observed only
			for _, dt := range []int{1, -1} {
				if j.t+dt < 0 {
					continue
				}
				var got bool
				p, _ := verifmc.Try(func() { got = secretsharing.Verify(uint(j.t+dt), sh, coms) })
				r.Outcome(fmt.Sprintf("observed-only:threshold%+d:%s", dt, map[bool]string{true: "panic", false: fmt.Sprint(got)}[p]))
			}
		}
		if j.t == 2 && j.n == 4 && j.sec.name == "shake0" {
			ov.AddSample(tag, map[string]interface{}{"case": tag, "shares_checked": len(d.shares), "commitments": len(coms)})
		}
	})
	r.RequireCounter("dealt_verified", 500)
	r.RequireCounter("altered_rejected", 2000)
	r.RequireCounter("altered_pair_still_on_polynomial", 10)
}

// TestVerifC17_refcheck binds verifref/shamir to its specification before it is trusted.
func TestVerifC17_refcheck(t *testing.T) {
	r := verifmc.Start(t, "C17", "refcheck")
	defer r.Finish()
	r.Rule("reference model against: crypto/elliptic group orders, RFC 8032 order of edwards25519, complete enumeration of all polynomials of degree <= 2 over GF(7) (thorough: and GF(11)) " +
		"with all node sets, Shoup's identity sum_j lambda_{0,j} f(j) = l! f(0) over the integers for all subsets of {1..l}, l <= 8, and the lambda vector documented in tss/rsa's own test (1200)")
	// group orders
	for _, G := range c17Groups() {
		if G.curve != nil && G.curve.Params().N.Cmp(G.q) != 0 {
			t.Fatalf("reference order of %s differs from crypto/elliptic", G.name)
		}
		if !G.q.ProbablyPrime(32) {
			t.Fatalf("reference order of %s is not prime", G.name)
		}
		r.Count("reference_group_orders", 1)
	}
	l8032, _ := new(big.Int).SetString("1000000000000000000000000000000014def9dea2f79cd65812631a5cf5d3ed", 16)
	if l8032.Cmp(shamir.OrderRistretto255) != 0 {
		t.Fatal("ristretto255 order differs from RFC 8032 L")
	}
	// complete small fields: GF(7) with every ordered triple of distinct non-zero nodes, GF(11) with every ascending triple
	fields := []int64{7}
	if r.Thorough() {
		fields = append(fields, 11)
	}
	for _, q64 := range fields {
		q := big.NewInt(q64)
		var nodes [][]*big.Int
		for a := int64(1); a < q64; a++ {
			for b := int64(1); b < q64; b++ {
				for c := int64(1); c < q64; c++ {
					if a != b && b != c && a != c && (q64 == 7 || (a < b && b < c)) {
						nodes = append(nodes, []*big.Int{big.NewInt(a), big.NewInt(b), big.NewInt(c)})
					}
				}
			}
		}
		var bad string
		var mu sync.Mutex
		verifmc.ParallelFor(int(q64*q64), func(ci int) {
			c0, c1 := int64(ci)/q64, int64(ci)%q64
			for c2 := int64(0); c2 < q64; c2++ {
				coef := []*big.Int{big.NewInt(c0), big.NewInt(c1), big.NewInt(c2)}
				for _, xs := range nodes {
					ys := make([]*big.Int, 3)
					ok := true
					for i, x := range xs {
						// direct evaluation, independent of Eval
						v := (c0 + c1*x.Int64() + c2*x.Int64()*x.Int64()) % q64
						ys[i] = big.NewInt(v)
						ok = ok && shamir.Eval(coef, x, q).Int64() == v
					}
					at0, err := shamir.At(xs, ys, big.NewInt(0), q)
					ok = ok && err == nil && at0.Int64() == c0
					cc, err := shamir.Coefficients(xs, ys, q)
					ok = ok && err == nil && cc[0].Int64() == c0 && cc[1].Int64() == c1 && cc[2].Int64() == c2
					if !ok {
						mu.Lock()
						bad = fmt.Sprintf("GF(%d): coefficients %v nodes %v", q64, coef, xs)
						mu.Unlock()
					}
					r.Count("reference_vectors_small_field", 1)
				}
			}
		})
		if bad != "" {
			t.Fatalf("reference Eval/At/Coefficients wrong over %s", bad)
		}
	}
	if _, err := shamir.At([]*big.Int{big.NewInt(1), big.NewInt(8)}, []*big.Int{big.NewInt(1), big.NewInt(2)}, big.NewInt(0), big.NewInt(7)); err == nil {
		t.Fatal("At accepted equal nodes")
	}
	// Shoup's integer Lagrange coefficients
	if lam, exact := shamir.ShoupLambda(5, []int{1, 2, 3, 4, 5}, 0, 3); !exact || lam.Int64() != 1200 {
		t.Fatalf("ShoupLambda(5,{1..5},0,3) = %v, documented value 1200", lam)
	}
	if lam, exact := shamir.ShoupLambda(3, []int{1, 3}, 0, 1); !exact || lam.Int64() != 9 { // 3! * (0-3)/(1-3) = 6*3/2
		t.Fatalf("ShoupLambda(3,{1,3},0,1) = %v, want 9", lam)
	}
	maxL := r.Pick(8, 10)
	polys := [][]int64{{1}, {0, 1}, {5, -3, 2}, {-7, 0, 0, 1}, {1, 1, 1, 1, 1, 1, 1, 1, 1, 1}, {3, -1, 4, -1, 5, -9, 2, -6, 5, -3}}
	for l := 1; l <= maxL; l++ {
		for mask := 1; mask < 1<<uint(l); mask++ {
			var S []int
			for _, m := range c17Members(mask, l) {
				S = append(S, m+1)
			}
			for _, p := range polys {
				if len(p) > len(S) {
					continue
				}
				f := func(x int) *big.Int {
					s := new(big.Int)
					for i := len(p) - 1; i >= 0; i-- {
						s.Mul(s, big.NewInt(int64(x)))
						s.Add(s, big.NewInt(p[i]))
					}
					return s
				}
				sum := new(big.Int)
				for _, jj := range S {
					lam, exact := shamir.ShoupLambda(l, S, 0, jj)
					if !exact {
						t.Fatalf("lambda not integral: l=%d S=%v j=%d", l, S, jj)
					}
					sum.Add(sum, lam.Mul(lam, f(jj)))
				}
				want := new(big.Int).Mul(shamir.Factorial(l), f(0))
				if sum.Cmp(want) != 0 {
					t.Fatalf("Shoup identity fails: l=%d S=%v poly=%v", l, S, p)
				}
				// and the consistency predicate built on it
				// with e = 1: consistent <=> l!*f(0) = l! mod m <=> f(0) = 1 mod m (m prime > l, so l! is invertible)
				m := big.NewInt(1000003)
				gotC := shamir.ShoupConsistent(l, S, func(x int) *big.Int { return new(big.Int).Mod(f(x), m) }, big.NewInt(1), m)
				wantC := new(big.Int).Mod(new(big.Int).Sub(f(0), big.NewInt(1)), m).Sign() == 0
				if gotC != wantC {
					t.Fatalf("ShoupConsistent wrong: l=%d S=%v poly=%v", l, S, p)
				}
				r.Count("reference_vectors_shoup_identity", 1)
			}
		}
	}
	ss := []string{}
	for _, G := range c17Groups() {
		ss = append(ss, G.name)
	}
	sort.Strings(ss)
	r.Sample(map[string]interface{}{"groups": ss, "shoup_max_l": maxL})
}

// c17DefaultConfigOnly: units whose code under test is math/big only (no CPU-feature dependent paths) run in the
// default configuration; the other configurations of checks.d/C17.json exist for the Feldman unit (P-384 arithmetic).
func c17DefaultConfigOnly(t *testing.T) {
	if c := os.Getenv("VERIF_CONFIG"); c != "" && c != "default" {
		t.Skip("unit runs in the default configuration only")
	}
}
