//go:build verif

package circl_test

// C10 rows, HPKE context life-cycle at the edges of its state (part of unit hpke).
//
// A marshalled context carries its own sequence number, so bytes from storage / a peer decide which
// state-dependent error path the restored object takes. These rows restore sealers / openers whose
// sequence number sits at 0, 1, every byte boundary, 2^64-1, 2^64, FF..FE and FF..FF (each of the three
// edge values is also altered by the generic enumeration: flips, windows, truncations), and then drive
// the object through Seal / Open / Export with
//   (a) ciphertexts that AUTHENTICATE under the object's current and following nonces - built in the
//       harness with crypto/aes+GCM / x/crypto/chacha20poly1305 from the key and base nonce found in the
//       very bytes under test, so that the branches behind a successful AEAD open (increment, overflow,
//       wiping) are reached for every accepted context,
//   (b) garbage, (c) the empty string, (d) strings shorter than the tag.
// Oracle: every call returns.

import (
	"crypto/aes"
	"crypto/cipher"
	"math/big"

	"github.com/cloudflare/circl/hpke"
	kit "github.com/cloudflare/circl/internal/verifref/c10kit"
	"golang.org/x/crypto/chacha20poly1305"
)

// c10LifeFields walks role(1) kem(2) kdf(2) aead(2) then four opaque<0..255> fields.
type c10LifeFields struct {
	aead           uint16
	key, base, seq []byte
	seqOff         int
}

func c10LifeParse(raw []byte) (f c10LifeFields, ok bool) {
	if len(raw) < 7 {
		return f, false
	}
	f.aead = uint16(raw[5])<<8 | uint16(raw[6])
	off := 7
	var fields [4][]byte
	for i := range fields {
		if off >= len(raw) || off+1+int(raw[off]) > len(raw) {
			return f, false
		}
		fields[i] = raw[off+1 : off+1+int(raw[off])]
		if i == 3 {
			f.seqOff = off + 1
		}
		off += 1 + int(raw[off])
	}
	if off != len(raw) {
		return f, false
	}
	f.key, f.base, f.seq = fields[1], fields[2], fields[3]
	return f, len(f.base) == len(f.seq) && len(f.seq) > 0
}

// c10LifeStd returns the independent AEAD for an HPKE AEAD id, or nil.
func c10LifeStd(id uint16, key []byte) cipher.AEAD {
	switch id {
	case uint16(hpke.AEAD_AES128GCM), uint16(hpke.AEAD_AES256GCM):
		b, err := aes.NewCipher(key)
		if err != nil {
			return nil
		}
		g, err := cipher.NewGCM(b)
		if err != nil {
			return nil
		}
		return g
	case uint16(hpke.AEAD_ChaCha20Poly1305):
		c, err := chacha20poly1305.New(key)
		if err != nil {
			return nil
		}
		return c
	}
	return nil
}

// c10LifeNonce: base XOR (seq + d), the sum taken modulo 2^(8*len).
func c10LifeNonce(base, seq []byte, d int64) []byte {
	n := len(seq)
	v := new(big.Int).SetBytes(seq)
	v.Add(v, big.NewInt(d))
	v.Mod(v, new(big.Int).Lsh(big.NewInt(1), uint(8*n)))
	s := v.FillBytes(make([]byte, n))
	o := make([]byte, n)
	for i := range o {
		o[i] = base[i] ^ s[i]
	}
	return o
}

// c10LifeSeqs: the sequence-number alphabet for an n-byte counter.
func c10LifeSeqs(n int) (names []string, vals [][]byte) {
	add := func(name string, v *big.Int) {
		names = append(names, name)
		vals = append(vals, v.FillBytes(make([]byte, n)))
	}
	one := big.NewInt(1)
	top := new(big.Int).Lsh(one, uint(8*n))
	add("seq=2^"+c10HpkeItoa(8*n)+"-1", new(big.Int).Sub(top, one))
	add("seq=2^"+c10HpkeItoa(8*n)+"-2", new(big.Int).Sub(top, big.NewInt(2)))
	add("seq=0", big.NewInt(0))
	add("seq=1", one)
	add("seq=2^"+c10HpkeItoa(8*n)+"-3", new(big.Int).Sub(top, big.NewInt(3)))
	for k := 8; k < 8*n; k += 8 {
		p := new(big.Int).Lsh(one, uint(k))
		add("seq=2^"+c10HpkeItoa(k)+"-2", new(big.Int).Sub(p, big.NewInt(2)))
		add("seq=2^"+c10HpkeItoa(k)+"-1", new(big.Int).Sub(p, one))
		add("seq=2^"+c10HpkeItoa(k), p)
	}
	add("seq=2^"+c10HpkeItoa(8*n-1)+"-1", new(big.Int).Sub(new(big.Int).Lsh(one, uint(8*n-1)), one))
	add("seq=2^"+c10HpkeItoa(8*n-1), new(big.Int).Lsh(one, uint(8*n-1)))
	return
}

// c10LifeWithSeq returns a copy of a marshalled context with the sequence number replaced.
func c10LifeWithSeq(raw, seq []byte) []byte {
	f, ok := c10LifeParse(raw)
	if !ok || len(f.seq) != len(seq) {
		panic("c10 setup: cannot locate the sequence number of an honest context")
	}
	c := append([]byte{}, raw...)
	copy(c[f.seqOff:], seq)
	return c
}

var (
	c10LifeGarbage = c10Shake("hpke/life/garbage", 40)
	c10LifePt2     = c10Shake("hpke/life/pt", 100)
)

// c10LifeOpener drives openers restored from `in` through every op sequence.
func c10LifeOpener(in []byte) error {
	if _, err := hpke.UnmarshalOpener(c10HpkeClone(in)); err != nil {
		return err
	}
	fresh := func() hpke.Opener {
		o, err := hpke.UnmarshalOpener(c10HpkeClone(in))
		if err != nil {
			panic("c10: UnmarshalOpener is not deterministic")
		}
		return o
	}
	var auth [4][]byte // authentic for seq, seq+1, seq+2 (mod 2^n) and, last, seq with an empty plaintext
	f, ok := c10LifeParse(in)
	var std cipher.AEAD
	if ok {
		std = c10LifeStd(f.aead, f.key)
	}
	if std != nil && len(f.base) == std.NonceSize() {
		for d := 0; d < 3; d++ {
			auth[d] = std.Seal(nil, c10LifeNonce(f.base, f.seq, int64(d)), c10Msg, c10HpkeAad)
		}
		auth[3] = std.Seal(nil, c10LifeNonce(f.base, f.seq, 0), nil, c10HpkeAad)
	} else {
		for d := range auth {
			auth[d] = c10LifeGarbage
		}
	}
	short := [][]byte{{}, c10LifeGarbage[:1], c10LifeGarbage[:15], c10LifeGarbage[:16], c10LifeGarbage[:17], c10LifeGarbage}
	// 1: three authentic messages in a row (crosses FF..FE -> FF..FF -> overflow), then Export
	o := fresh()
	for d := 0; d < 3; d++ {
		_, _ = o.Open(auth[d], c10HpkeAad)
	}
	_ = o.Export(c10HpkeExp, 32)
	// 2: failed opens of every kind must leave the object usable; then the authentic one, twice
	o = fresh()
	for _, c := range short {
		_, _ = o.Open(c, c10HpkeAad)
		_, _ = o.Open(c, nil)
	}
	_, _ = o.Open(auth[1], c10HpkeAad) // right key, next nonce: must fail
	_, _ = o.Open(auth[0], nil)        // right nonce, wrong aad
	_, _ = o.Open(auth[0], c10HpkeAad)
	_, _ = o.Open(auth[0], c10HpkeAad) // replay
	_, _ = o.Open(auth[1], c10HpkeAad)
	// 3: authentic ciphertext of the empty plaintext (pt has length 0 on the error path)
	o = fresh()
	_, _ = o.Open(auth[3], c10HpkeAad)
	_, _ = o.Open(auth[3], c10HpkeAad)
	// 4: the restored object is marshalled again after use
	if m, ok := o.(interface{ MarshalBinary() ([]byte, error) }); ok {
		_, _ = m.MarshalBinary()
	}
	return nil
}

// c10LifeSealer drives sealers restored from `in`.
func c10LifeSealer(in []byte) error {
	if _, err := hpke.UnmarshalSealer(c10HpkeClone(in)); err != nil {
		return err
	}
	s, err := hpke.UnmarshalSealer(c10HpkeClone(in))
	if err != nil {
		panic("c10: UnmarshalSealer is not deterministic")
	}
	for i := 0; i < 3; i++ {
		_, _ = s.Seal(c10Msg, c10HpkeAad)
	}
	_, _ = s.Seal(nil, nil)
	_, _ = s.Seal([]byte{}, c10HpkeAad)
	_, _ = s.Seal(c10LifePt2, nil)
	_ = s.Export(c10HpkeExp, 32)
	if m, ok := s.(interface{ MarshalBinary() ([]byte, error) }); ok {
		_, _ = m.MarshalBinary()
	}
	// a sealer restored at the edge, whose output is fed to an opener restored from the same bytes with the role flipped
	s2, err := hpke.UnmarshalSealer(c10HpkeClone(in))
	if err == nil && len(in) > 0 {
		ob := c10HpkeClone(in)
		ob[0] = 1
		if o, err := hpke.UnmarshalOpener(ob); err == nil {
			for i := 0; i < 3; i++ {
				ct, _ := s2.Seal(c10Msg, c10HpkeAad)
				_, _ = o.Open(ct, c10HpkeAad)
			}
		}
	}
	return nil
}

func c10HpkeLifeRows() []*kit.Row {
	var rows []*kit.Row
	for _, cs := range c10HpkeCtxSuites() {
		cs := cs
		for _, role := range []string{"Sealer", "Opener"} {
			role := role
			use := "hpke.sealContext.Seal"
			if role == "Opener" {
				use = "hpke.openContext.Open"
			}
			rows = append(rows, &kit.Row{Name: "hpke.Unmarshal" + role + "(+life-cycle)[" + cs.name + "]", Cost: kit.Cheap,
				Covers: []string{"hpke.Unmarshal" + role, use, "hpke.encdecContext.Export"},
				Note: "valid encodings = honest contexts with the sequence number set to 2^96-1, 2^96-2 and 0; extras = every other value of the counter alphabet; " +
					"each accepted context is driven through Seal / Open (authentic for the current and next nonces, garbage, empty, shorter than the tag) and Export",
				Setup: func() *kit.Inst {
					s0, o0, _ := c10HpkeHonestCtx(cs.kems[0], cs.kdf, cs.aead, cs.name+"/life", 0)
					raw, call := s0, c10LifeSealer
					if role == "Opener" {
						raw, call = o0, c10LifeOpener
					}
					f, ok := c10LifeParse(raw)
					if !ok {
						panic("c10 setup: honest context does not parse")
					}
					names, vals := c10LifeSeqs(len(f.seq))
					inst := &kit.Inst{Call: call}
					for i := range vals {
						c := c10LifeWithSeq(raw, vals[i])
						if i < 3 {
							inst.Bases = append(inst.Bases, c)
						} else {
							inst.Extras = append(inst.Extras, kit.Named{Name: names[i], Data: c})
						}
					}
					// the same alphabet on a context of the suite's second KEM id, and the hostile hand-made contexts
					s1, o1, _ := c10HpkeHonestCtx(cs.kems[1], cs.kdf, cs.aead, cs.name+"/life1", 2)
					raw1, other, rb := s1, o0, byte(0)
					if role == "Opener" {
						raw1, other, rb = o1, s0, 1
					}
					for i := range vals {
						inst.Extras = append(inst.Extras, kit.Named{Name: cs.kemNames[1] + "/" + names[i], Data: c10LifeWithSeq(raw1, vals[i])})
					}
					inst.Extras = append(inst.Extras, c10HpkeCtxExtras(rb, cs, other)...)
					return inst
				}})
		}
	}
	return rows
}
