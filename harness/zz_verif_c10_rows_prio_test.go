//go:build verif

package circl_test

// C10 registry rows, family "prio": every UnmarshalBinary reachable through the public Prio3 packages
// (count, sum, sumvec, histogram, mhcv) and the field element / vector decoders, each followed by the
// protocol step an aggregator / collector runs on the untrusted object.

import (
	"encoding"
	"errors"
	"testing"

	kit "github.com/cloudflare/circl/internal/verifref/c10kit"
	"github.com/cloudflare/circl/vdaf/prio3/arith/fp128"
	"github.com/cloudflare/circl/vdaf/prio3/arith/fp64"
	"github.com/cloudflare/circl/vdaf/prio3/count"
	"github.com/cloudflare/circl/vdaf/prio3/histogram"
	"github.com/cloudflare/circl/vdaf/prio3/mhcv"
	"github.com/cloudflare/circl/vdaf/prio3/sum"
	"github.com/cloudflare/circl/vdaf/prio3/sumvec"
)

// c10PrioVdaf is the common shape of the five public Prio3 types. All type parameters are inferred
// from the methods; P is the (internal, unnameable here) prio3.Params.
type c10PrioVdaf[M, A, AS, IS, N, OS, PM, PSh, PSt, PS, VK, P any] interface {
	Params() P
	Shard(M, *N, []byte) (PS, []IS, error)
	PrepInit(*VK, *N, uint8, PS, IS) (*PSt, *PSh, error)
	PrepSharesToPrep([]PSh) (*PM, error)
	PrepNext(*PSt, *PM) (*OS, error)
	AggregateInit() AS
	AggregateUpdate(*AS, *OS)
	Unshard([]AS, uint) (*A, error)
}

var c10PrioCtx = []byte("verif C10 prio3")

const c10PrioShares = 2

type c10PrioMarsh interface {
	encoding.BinaryMarshaler
	encoding.BinaryUnmarshaler
}

// c10PrioNew allocates a T shaped by the parameters (and the aggregator id for input shares), the way
// the package's own tests do it.
func c10PrioNew[T, P any](p *P, aggID ...uint) *T {
	y := new(T)
	if n, ok := any(y).(interface{ New(*P) *T }); ok {
		n.New(p)
	} else if n, ok := any(y).(interface{ New(*P, uint) *T }); ok {
		n.New(p, aggID[0])
	} else {
		panic("c10 setup: type without New")
	}
	return y
}

func c10PrioEnc(x interface{}) []byte {
	b, err := x.(encoding.BinaryMarshaler).MarshalBinary()
	c10Must(err)
	if b == nil {
		b = []byte{}
	}
	return b
}

func c10PrioDec[T, P any](p *P, in []byte, aggID ...uint) (*T, error) {
	y := c10PrioNew[T](p, aggID...)
	return y, any(y).(encoding.BinaryUnmarshaler).UnmarshalBinary(in)
}

// c10PrioFix is one honest protocol run (one measurement, two aggregators).
type c10PrioFix[AS, IS, N, OS, PM, PSh, PSt, PS, VK, P any] struct {
	params  P
	nonce   N
	vk      VK
	ps      PS
	iss     []IS
	states  []*PSt
	pshares []PSh
	msg     *PM
	outs    []*OS
	aggs    []AS
	// encodings
	ePS                       []byte
	eIS, eState, ePShare, eOS [][]byte
	eMsg                      []byte
	eAgg                      [][]byte
}

func c10PrioRun[V c10PrioVdaf[M, A, AS, IS, N, OS, PM, PSh, PSt, PS, VK, P], M, A, AS, IS, N, OS, PM, PSh, PSt, PS, VK, P any](
	label string, v V, meas M,
) *c10PrioFix[AS, IS, N, OS, PM, PSh, PSt, PS, VK, P] {
	f := &c10PrioFix[AS, IS, N, OS, PM, PSh, PSt, PS, VK, P]{params: v.Params()}
	copy(any(&f.nonce).(*count.Nonce)[:], c10Shake("prio/nonce/"+label, 16))
	copy(any(&f.vk).(*count.VerifyKey)[:], c10Shake("prio/vk/"+label, 32))
	randSize := any(&f.params).(interface{ RandSize() uint }).RandSize()
	var err error
	f.ps, f.iss, err = v.Shard(meas, &f.nonce, c10Shake("prio/rand/"+label, int(randSize)))
	c10Must(err)
	if len(f.iss) != c10PrioShares {
		panic("c10 setup: unexpected number of input shares")
	}
	f.ePS = c10PrioEnc(&f.ps)
	for i := range f.iss {
		st, sh, err := v.PrepInit(&f.vk, &f.nonce, uint8(i), f.ps, f.iss[i])
		c10Must(err)
		f.states = append(f.states, st)
		f.pshares = append(f.pshares, *sh)
		f.eIS = append(f.eIS, c10PrioEnc(&f.iss[i]))
		f.eState = append(f.eState, c10PrioEnc(st))
		f.ePShare = append(f.ePShare, c10PrioEnc(sh))
	}
	f.msg, err = v.PrepSharesToPrep(f.pshares)
	c10Must(err)
	f.eMsg = c10PrioEnc(f.msg)
	for i := range f.iss {
		o, err := v.PrepNext(f.states[i], f.msg)
		c10Must(err)
		f.outs = append(f.outs, o)
		f.eOS = append(f.eOS, c10PrioEnc(o))
		a := v.AggregateInit()
		v.AggregateUpdate(&a, o)
		f.aggs = append(f.aggs, a)
		f.eAgg = append(f.eAgg, c10PrioEnc(&f.aggs[i]))
	}
	_, err = v.Unshard(f.aggs, 1)
	c10Must(err)
	return f
}

var errC10PrioNil = errors.New("c10: nil result without error")

// c10PrioRows builds the rows of one VDAF. mk / mkAlt construct the instance under test and an instance of
// the same type with other parameters (its encodings are the wrong-shape extras).
func c10PrioRows[V c10PrioVdaf[M, A, AS, IS, N, OS, PM, PSh, PSt, PS, VK, P], M, A, AS, IS, N, OS, PM, PSh, PSt, PS, VK, P any](
	pkg, typ string, cost int, mk, mkAlt func() V, meas, meas2, measAlt M,
) []*kit.Row {
	const ip = "vdaf/prio3/internal/prio3."
	pub := "vdaf/prio3/" + pkg + "." + typ + "."
	type fix = c10PrioFix[AS, IS, N, OS, PM, PSh, PSt, PS, VK, P]
	type env struct {
		v       V
		f, g, h *fix // g: second measurement, same instance; h: other parameters
	}
	setup := func() *env {
		e := &env{v: mk()}
		e.f = c10PrioRun(pkg+"/a", e.v, meas)
		e.g = c10PrioRun(pkg+"/b", e.v, meas2)
		e.h = c10PrioRun(pkg+"/alt", mkAlt(), measAlt)
		return e
	}
	name := func(s string) string { return "vdaf/prio3/" + pkg + ":" + s }
	rows := []*kit.Row{
		{Name: name("PublicShare.UnmarshalBinary(+PrepInit)"), Cost: cost,
			Covers: []string{ip + "PublicShare.UnmarshalBinary", pub + "PrepInit", ip + "Prio3.PrepInit"},
			Note:   "receiver shaped with PublicShare.New(params); the accepted public share starts the preparation of both aggregators",
			Setup: func() *kit.Inst {
				e := setup()
				return &kit.Inst{Bases: [][]byte{e.f.ePS, e.g.ePS},
					Call: func(in []byte) error {
						ps, err := c10PrioDec[PS](&e.f.params, in)
						if err != nil {
							return err
						}
						for i := range e.f.iss {
							if _, _, err := e.v.PrepInit(&e.f.vk, &e.f.nonce, uint8(i), *ps, e.f.iss[i]); err != nil {
								return err
							}
						}
						return nil
					},
					Extras: []kit.Named{{"other-params", e.h.ePS}, {"leader-input-share", e.f.eIS[0]}, {"prep-message", e.f.eMsg}}}
			}},
		{Name: name("PrepInit#publicShare(raw)"), Cost: cost, Covers: []string{pub + "PrepInit", ip + "Prio3.PrepInit"},
			Note: "PublicShare is a byte-slice type: the raw untrusted bytes are passed as the public share without UnmarshalBinary",
			Setup: func() *kit.Inst {
				e := setup()
				return &kit.Inst{Bases: [][]byte{e.f.ePS},
					Call: func(in []byte) error {
						var ps PS
						*(any(&ps).(*count.PublicShare)) = count.PublicShare(in)
						for i := range e.f.iss {
							if _, _, err := e.v.PrepInit(&e.f.vk, &e.f.nonce, uint8(i), ps, e.f.iss[i]); err != nil {
								return err
							}
						}
						return nil
					},
					Extras: []kit.Named{{"other-params", e.h.ePS}, {"long-4096", c10Shake("prio/longps", 4096)}}}
			}},
	}
	for agg := 0; agg < c10PrioShares; agg++ {
		agg := agg
		role := []string{"leader", "helper"}[agg]
		rows = append(rows, &kit.Row{Name: name("InputShare[" + role + "].UnmarshalBinary(+PrepInit)"), Cost: cost,
			Covers: []string{ip + "InputShare.UnmarshalBinary", pub + "PrepInit", ip + "Prio3.PrepInit"},
			Note:   "receiver shaped with InputShare.New(params, aggID); the accepted share is the input of PrepInit of that aggregator",
			Setup: func() *kit.Inst {
				e := setup()
				other, err := c10PrioDec[IS](&e.f.params, e.f.eIS[1-agg], uint(1-agg))
				c10Must(err)
				return &kit.Inst{Bases: [][]byte{e.f.eIS[agg], e.g.eIS[agg]},
					Call: func(in []byte) error {
						is, err := c10PrioDec[IS](&e.f.params, in, uint(agg))
						if err != nil {
							return err
						}
						_, _, err = e.v.PrepInit(&e.f.vk, &e.f.nonce, uint8(agg), e.f.ps, *is)
						return err
					},
					Extras: []kit.Named{{"other-role", e.f.eIS[1-agg]}, {"other-params", e.h.eIS[agg]}, {"prep-share", e.f.ePShare[agg]}},
					Typed: []kit.Typed{
						{"share-of-the-other-role", func() error {
							_, _, err := e.v.PrepInit(&e.f.vk, &e.f.nonce, uint8(agg), e.f.ps, *other)
							return err
						}},
						{"aggID=numShares", func() error {
							_, _, err := e.v.PrepInit(&e.f.vk, &e.f.nonce, c10PrioShares, e.f.ps, e.f.iss[agg])
							return err
						}},
						{"aggID=255", func() error {
							_, _, err := e.v.PrepInit(&e.f.vk, &e.f.nonce, 255, e.f.ps, e.f.iss[agg])
							return err
						}},
					}}
			}})
	}
	rows = append(rows,
		&kit.Row{Name: name("PrepShare.UnmarshalBinary(+PrepSharesToPrep)"), Cost: cost,
			Covers: []string{ip + "PrepShare.UnmarshalBinary", pub + "PrepSharesToPrep", ip + "Prio3.PrepSharesToPrep"},
			Note:   "the accepted prep share of the helper is combined with the leader's honest one",
			Setup: func() *kit.Inst {
				e := setup()
				return &kit.Inst{Bases: [][]byte{e.f.ePShare[1]},
					Call: func(in []byte) error {
						sh, err := c10PrioDec[PSh](&e.f.params, in)
						if err != nil {
							return err
						}
						_, err = e.v.PrepSharesToPrep([]PSh{e.f.pshares[0], *sh})
						return err
					},
					Extras: []kit.Named{{"leader-prep-share", e.f.ePShare[0]}, {"prep-share-of-other-report", e.g.ePShare[1]},
						{"other-params", e.h.ePShare[1]}, {"prep-state", e.f.eState[1]}},
					Typed: []kit.Typed{
						{"one-share-only", func() error { _, err := e.v.PrepSharesToPrep(e.f.pshares[:1]); return err }},
						{"three-shares", func() error {
							_, err := e.v.PrepSharesToPrep([]PSh{e.f.pshares[0], e.f.pshares[1], e.f.pshares[1]})
							return err
						}},
					}}
			}},
		&kit.Row{Name: name("PrepMessage.UnmarshalBinary(+PrepNext)"), Cost: kit.Cheap,
			Covers: []string{ip + "PrepMessage.UnmarshalBinary", pub + "PrepNext", ip + "Prio3.PrepNext"},
			Setup: func() *kit.Inst {
				e := setup()
				return &kit.Inst{Bases: [][]byte{e.f.eMsg},
					Call: func(in []byte) error {
						m, err := c10PrioDec[PM](&e.f.params, in)
						if err != nil {
							return err
						}
						o, err := e.v.PrepNext(e.f.states[0], m)
						if err == nil && o == nil {
							return errC10PrioNil
						}
						return err
					},
					Extras: []kit.Named{{"message-of-other-report", e.g.eMsg}, {"prep-share", e.f.ePShare[0]}, {"seed+1", c10Shake("prio/msg", 33)}}}
			}},
		&kit.Row{Name: name("PrepState.UnmarshalBinary(+PrepNext)"), Cost: kit.Cheap,
			Covers: []string{ip + "PrepState.UnmarshalBinary", pub + "PrepNext", ip + "Prio3.PrepNext"},
			Setup: func() *kit.Inst {
				e := setup()
				return &kit.Inst{Bases: [][]byte{e.f.eState[0], e.f.eState[1]},
					Call: func(in []byte) error {
						st, err := c10PrioDec[PSt](&e.f.params, in)
						if err != nil {
							return err
						}
						_, err = e.v.PrepNext(st, e.f.msg)
						return err
					},
					Extras: []kit.Named{{"state-of-other-report", e.g.eState[0]}, {"other-params", e.h.eState[0]}, {"prep-share", e.f.ePShare[0]}}}
			}},
		&kit.Row{Name: name("OutShare.UnmarshalBinary"), Cost: kit.Cheap, Covers: []string{ip + "OutShare.UnmarshalBinary"},
			Setup: func() *kit.Inst {
				e := setup()
				return &kit.Inst{Bases: [][]byte{e.f.eOS[0], e.f.eOS[1]},
					Call:   func(in []byte) error { _, err := c10PrioDec[OS](&e.f.params, in); return err },
					Extras: []kit.Named{{"other-params", e.h.eOS[0]}, {"prep-share", e.f.ePShare[0]}}}
			}},
		&kit.Row{Name: name("AggShare.UnmarshalBinary(+Unshard)"), Cost: kit.Cheap,
			Covers: []string{ip + "AggShare.UnmarshalBinary", pub + "Unshard", ip + "Prio3.Unshard"},
			Note:   "the accepted aggregate share of the helper is unsharded with the leader's honest one (1 measurement)",
			Setup: func() *kit.Inst {
				e := setup()
				return &kit.Inst{Bases: [][]byte{e.f.eAgg[1]},
					Call: func(in []byte) error {
						a, err := c10PrioDec[AS](&e.f.params, in)
						if err != nil {
							return err
						}
						_, err = e.v.Unshard([]AS{e.f.aggs[0], *a}, 1)
						return err
					},
					Extras: []kit.Named{{"other-params", e.h.eAgg[1]}, {"leader-agg-share", e.f.eAgg[0]}, {"agg-share-of-other-batch", e.g.eAgg[1]}},
					Typed: []kit.Typed{
						{"one-share-only", func() error { _, err := e.v.Unshard(e.f.aggs[:1], 1); return err }},
						{"numMeas=0", func() error { _, err := e.v.Unshard(e.f.aggs, 0); return err }},
						{"numMeas=max", func() error { _, err := e.v.Unshard(e.f.aggs, ^uint(0)); return err }},
					}}
			}},
	)
	return rows
}

// ---------------------------------------------------------------------------------------------
// field elements and vectors

func c10PrioLEPlus(b []byte, d int) []byte { // little-endian b + d (d = +1 / -1), same length
	o := append([]byte{}, b...)
	for i := range o {
		if d > 0 {
			o[i]++
			if o[i] != 0 {
				break
			}
		} else {
			o[i]--
			if o[i] != 0xFF {
				break
			}
		}
	}
	return o
}

func c10RowsPrioField() []*kit.Row {
	var one64, m64 fp64.Fp
	one64.SetOne()
	m64.Sub(&fp64.Fp{}, &one64) // p-1
	var one128, m128 fp128.Fp
	one128.SetOne()
	m128.Sub(&fp128.Fp{}, &one128)
	pm1x64, pm1x128 := c10PrioEnc(&m64), c10PrioEnc(&m128)
	order := func(pm1 []byte) []kit.Named {
		p := c10PrioLEPlus(pm1, 1)
		return []kit.Named{{"p-1", pm1}, {"p", p}, {"p+1", c10PrioLEPlus(p, 1)}, {"p-2", c10PrioLEPlus(pm1, -1)}}
	}
	rnd64 := func(l string) *fp64.Fp {
		var z fp64.Fp
		b := c10Shake("prio/fp64/"+l, 8)
		b[7] &= 0x7F
		c10Must(z.UnmarshalBinary(b))
		return &z
	}
	rnd128 := func(l string) *fp128.Fp {
		var z fp128.Fp
		b := c10Shake("prio/fp128/"+l, 16)
		b[15] &= 0x7F
		c10Must(z.UnmarshalBinary(b))
		return &z
	}
	const a = "vdaf/prio3/arith/"
	return []*kit.Row{
		{Name: a + "fp64.Fp.UnmarshalBinary", Cost: kit.Cheap, Covers: []string{a + "fp64.Fp.UnmarshalBinary", a + "fp64.Fp.Unmarshal"},
			Setup: func() *kit.Inst {
				return &kit.Inst{Bases: [][]byte{c10PrioEnc(rnd64("a")), c10PrioEnc(&one64), pm1x64},
					Call:   func(in []byte) error { var z fp64.Fp; return z.UnmarshalBinary(in) },
					Extras: append(order(pm1x64), kit.Named{Name: "fp128-element", Data: c10PrioEnc(rnd128("a"))})}
			}},
		{Name: a + "fp128.Fp.UnmarshalBinary", Cost: kit.Cheap, Covers: []string{a + "fp128.Fp.UnmarshalBinary", a + "fp128.Fp.Unmarshal"},
			Setup: func() *kit.Inst {
				return &kit.Inst{Bases: [][]byte{c10PrioEnc(rnd128("a")), c10PrioEnc(&one128), pm1x128},
					Call:   func(in []byte) error { var z fp128.Fp; return z.UnmarshalBinary(in) },
					Extras: append(order(pm1x128), kit.Named{Name: "fp64-element", Data: c10PrioEnc(rnd64("a"))})}
			}},
		{Name: a + "fp64.Vec.UnmarshalBinary", Cost: kit.Cheap, Covers: []string{a + "fp64.Vec.UnmarshalBinary", a + "fp64.Vec.Unmarshal"},
			Note: "receiver of 3 elements (the vector length is the receiver's)",
			Setup: func() *kit.Inst {
				v := fp64.Vec{*rnd64("a"), *rnd64("b"), m64}
				p := c10PrioLEPlus(pm1x64, 1)
				return &kit.Inst{Bases: [][]byte{c10PrioEnc(v)},
					Call: func(in []byte) error { return make(fp64.Vec, 3).UnmarshalBinary(in) },
					Extras: []kit.Named{{"last=p", c10PrioCat(c10PrioEnc(v[:2]), p)}, {"first=p", c10PrioCat(p, c10PrioEnc(v[1:]))},
						{"4-elements", c10PrioEnc(append(fp64.Vec{one64}, v...))}, {"2-elements", c10PrioEnc(v[:2])}},
					Typed: []kit.Typed{
						{"empty-receiver-empty-input", func() error { return fp64.Vec{}.UnmarshalBinary([]byte{}) }},
						{"empty-receiver-8-bytes", func() error { return fp64.Vec{}.UnmarshalBinary(pm1x64) }},
					}}
			}},
		{Name: a + "fp128.Vec.UnmarshalBinary", Cost: kit.Cheap, Covers: []string{a + "fp128.Vec.UnmarshalBinary", a + "fp128.Vec.Unmarshal"},
			Note: "receiver of 3 elements (the vector length is the receiver's)",
			Setup: func() *kit.Inst {
				v := fp128.Vec{*rnd128("a"), *rnd128("b"), m128}
				p := c10PrioLEPlus(pm1x128, 1)
				return &kit.Inst{Bases: [][]byte{c10PrioEnc(v)},
					Call: func(in []byte) error { return make(fp128.Vec, 3).UnmarshalBinary(in) },
					Extras: []kit.Named{{"last=p", c10PrioCat(c10PrioEnc(v[:2]), p)}, {"first=p", c10PrioCat(p, c10PrioEnc(v[1:]))},
						{"4-elements", c10PrioEnc(append(fp128.Vec{one128}, v...))}, {"2-elements", c10PrioEnc(v[:2])}},
					Typed: []kit.Typed{
						{"empty-receiver-empty-input", func() error { return fp128.Vec{}.UnmarshalBinary([]byte{}) }},
						{"empty-receiver-16-bytes", func() error { return fp128.Vec{}.UnmarshalBinary(pm1x128) }},
					}}
			}},
	}
}

func c10PrioCat(x ...[]byte) []byte {
	var o []byte
	for _, y := range x {
		o = append(o, y...)
	}
	return o
}

func c10RowsPrio() []*kit.Row {
	rows := c10RowsPrioField()
	rows = append(rows, c10PrioRows("count", "Count", kit.Medium,
		func() *count.Count { v, err := count.New(c10PrioShares, c10PrioCtx); c10Must(err); return v },
		func() *count.Count {
			v, err := count.New(c10PrioShares, []byte("another context"))
			c10Must(err)
			return v
		},
		true, false, true)...)
	rows = append(rows, c10PrioRows("sum", "Sum", kit.Medium,
		func() *sum.Sum { v, err := sum.New(c10PrioShares, 4, c10PrioCtx); c10Must(err); return v },
		func() *sum.Sum { v, err := sum.New(c10PrioShares, 1000, c10PrioCtx); c10Must(err); return v },
		uint64(3), uint64(0), uint64(999))...)
	rows = append(rows, c10PrioRows("sumvec", "SumVec", kit.Medium,
		func() *sumvec.SumVec {
			v, err := sumvec.New(c10PrioShares, 3, 2, 2, c10PrioCtx)
			c10Must(err)
			return v
		},
		func() *sumvec.SumVec {
			v, err := sumvec.New(c10PrioShares, 4, 2, 3, c10PrioCtx)
			c10Must(err)
			return v
		},
		[]uint64{1, 3, 0}, []uint64{0, 0, 2}, []uint64{1, 2, 3, 0})...)
	rows = append(rows, c10PrioRows("histogram", "Histogram", kit.Medium,
		func() *histogram.Histogram {
			v, err := histogram.New(c10PrioShares, 4, 2, c10PrioCtx)
			c10Must(err)
			return v
		},
		func() *histogram.Histogram {
			v, err := histogram.New(c10PrioShares, 5, 3, c10PrioCtx)
			c10Must(err)
			return v
		},
		uint64(2), uint64(0), uint64(4))...)
	rows = append(rows, c10PrioRows("mhcv", "MultiHotCountVec", kit.Medium,
		func() *mhcv.MultiHotCountVec {
			v, err := mhcv.New(c10PrioShares, 4, 2, 2, c10PrioCtx)
			c10Must(err)
			return v
		},
		func() *mhcv.MultiHotCountVec {
			v, err := mhcv.New(c10PrioShares, 5, 2, 3, c10PrioCtx)
			c10Must(err)
			return v
		},
		[]bool{true, false, false, true}, []bool{false, false, false, false}, []bool{true, false, false, false, true})...)
	return rows
}

func init() { c10Register("prio", c10RowsPrio) }

func TestVerifC10_prio(t *testing.T) { c10Run(t, "prio") }
