//go:build verif

package circl_test

// C10 rows, family hpke: serialized contexts (UnmarshalSealer / UnmarshalOpener), receiver setup in
// the four modes (encapsulated key, psk, psk id, sender key), Opener.Open and AEAD.New.
// The KEM schemes themselves (Decapsulate / UnmarshalBinary*Key) are rows of the kem family.

import (
	"bytes"
	"errors"
	"testing"

	"github.com/cloudflare/circl/hpke"
	"github.com/cloudflare/circl/internal/verifmc"
	kit "github.com/cloudflare/circl/internal/verifref/c10kit"
	"github.com/cloudflare/circl/kem"
)

type c10HpkeKemInfo struct {
	name  string
	id    hpke.KEM
	kdf   hpke.KDF
	aead  hpke.AEAD
	cost  int  // one receiver setup
	auth  bool // supports the auth modes
	cover string
}

func c10HpkeKems() []c10HpkeKemInfo {
	return []c10HpkeKemInfo{
		{"P256", hpke.KEM_P256_HKDF_SHA256, hpke.KDF_HKDF_SHA256, hpke.AEAD_AES128GCM, kit.Medium, true, "hpke.dhKemBase"},
		{"P384", hpke.KEM_P384_HKDF_SHA384, hpke.KDF_HKDF_SHA384, hpke.AEAD_AES256GCM, kit.Slow, true, "hpke.dhKemBase"},
		{"P521", hpke.KEM_P521_HKDF_SHA512, hpke.KDF_HKDF_SHA512, hpke.AEAD_ChaCha20Poly1305, kit.Slow, true, "hpke.dhKemBase"},
		{"X25519", hpke.KEM_X25519_HKDF_SHA256, hpke.KDF_HKDF_SHA256, hpke.AEAD_AES128GCM, kit.Medium, true, "hpke.dhKemBase"},
		{"X448", hpke.KEM_X448_HKDF_SHA512, hpke.KDF_HKDF_SHA512, hpke.AEAD_AES256GCM, kit.Slow, true, "hpke.dhKemBase"},
		{"X25519Kyber768", hpke.KEM_X25519_KYBER768_DRAFT00, hpke.KDF_HKDF_SHA256, hpke.AEAD_ChaCha20Poly1305, kit.Slow, false, "hpke.hybridKEM"},
		{"XWing", hpke.KEM_XWING, hpke.KDF_HKDF_SHA256, hpke.AEAD_AES128GCM, kit.Slow, false, "kem/xwing.scheme"},
	}
}

var (
	c10HpkeInfo  = []byte("verif C10 hpke info")
	c10HpkeAad   = []byte("verif C10 hpke aad")
	c10HpkeExp   = []byte("verif C10 exporter context")
	c10HpkePsk   = c10Shake("hpke/psk", 32)
	c10HpkePskID = []byte("verif C10 psk id")
)

// c10HpkeParty: receiver (R) and sender (S) key pairs of one KEM.
type c10HpkeParty struct {
	ki       c10HpkeKemInfo
	suite    hpke.Suite
	pkR, pkS kem.PublicKey
	skR, skS kem.PrivateKey
	ppkS     []byte
}

func c10HpkeDerive(id hpke.KEM, label string) (kem.PublicKey, kem.PrivateKey) {
	s := id.Scheme()
	return s.DeriveKeyPair(c10Shake("hpke/"+label+"/"+s.Name(), s.SeedSize()))
}

func c10HpkeNewParty(ki c10HpkeKemInfo) *c10HpkeParty {
	p := &c10HpkeParty{ki: ki, suite: hpke.NewSuite(ki.id, ki.kdf, ki.aead)}
	p.pkR, p.skR = c10HpkeDerive(ki.id, "R")
	p.pkS, p.skS = c10HpkeDerive(ki.id, "S")
	var err error
	p.ppkS, err = p.pkS.MarshalBinary()
	c10Must(err)
	return p
}

const (
	c10HpkeBase = iota
	c10HpkePSK
	c10HpkeAuth
	c10HpkeAuthPSK
)

var c10HpkeModeName = [...]string{"Setup", "SetupPSK", "SetupAuth", "SetupAuthPSK"}

// send runs the honest sender in the given mode (deterministic randomness).
func (p *c10HpkeParty) send(mode int, label string) (enc []byte, sealer hpke.Sealer) {
	s, err := p.suite.NewSender(p.pkR, c10HpkeInfo)
	c10Must(err)
	rnd := verifmc.NewDetReader("c10/hpke/send/" + p.ki.name + "/" + label)
	switch mode {
	case c10HpkeBase:
		enc, sealer, err = s.Setup(rnd)
	case c10HpkePSK:
		enc, sealer, err = s.SetupPSK(rnd, c10HpkePsk, c10HpkePskID)
	case c10HpkeAuth:
		enc, sealer, err = s.SetupAuth(rnd, p.skS)
	case c10HpkeAuthPSK:
		enc, sealer, err = s.SetupAuthPSK(rnd, p.skS, c10HpkePsk, c10HpkePskID)
	}
	c10Must(err)
	return enc, sealer
}

// recv runs the receiver in the given mode with the given (possibly untrusted) arguments.
func c10HpkeRecv(suite hpke.Suite, mode int, skR kem.PrivateKey, enc, psk, pskID []byte, pkS kem.PublicKey) (hpke.Opener, error) {
	r, err := suite.NewReceiver(skR, c10HpkeInfo)
	if err != nil {
		return nil, err
	}
	switch mode {
	case c10HpkeBase:
		return r.Setup(enc)
	case c10HpkePSK:
		return r.SetupPSK(enc, psk, pskID)
	case c10HpkeAuth:
		return r.SetupAuth(enc, pkS)
	}
	return r.SetupAuthPSK(enc, psk, pskID, pkS)
}

// c10HpkeUseOpener uses an accepted opener: open a ciphertext, export a secret.
func c10HpkeUseOpener(o hpke.Opener, ct []byte) {
	_, _ = o.Open(ct, c10HpkeAad)
	_ = o.Export(c10HpkeExp, 32)
}

var c10HpkeErrMismatch = errors.New("c10 setup: honest HPKE round trip failed")

// c10HpkeOtherKeys: key pairs of every other KEM (typed cases).
type c10HpkeForeign struct {
	name string
	pk   kem.PublicKey
	sk   kem.PrivateKey
	enc  []byte
}

func c10HpkeForeigns(own string) []c10HpkeForeign {
	var l []c10HpkeForeign
	for _, ki := range c10HpkeKems() {
		if ki.name == own {
			continue
		}
		p := c10HpkeNewParty(ki)
		enc, _ := p.send(c10HpkeBase, "foreign")
		l = append(l, c10HpkeForeign{ki.name, p.pkR, p.skR, enc})
	}
	return l
}

func c10HpkeSetupRows() []*kit.Row {
	var rows []*kit.Row
	for _, ki := range c10HpkeKems() {
		ki := ki
		for mode := c10HpkeBase; mode <= c10HpkeAuthPSK; mode++ {
			mode := mode
			isAuth := mode == c10HpkeAuth || mode == c10HpkeAuthPSK
			isPSK := mode == c10HpkePSK || mode == c10HpkeAuthPSK
			if isAuth && !ki.auth {
				// hybridKEM.AuthDecapsulate is an unconditional panic("... not supported"); the X-Wing shim is no
				// kem.AuthScheme (ErrInvalidAuthKEM): not input dependent, no rows.
				continue
			}
			if isPSK && ki.name != "X25519" && ki.name != "P256" && !(mode == c10HpkePSK && ki.name == "XWing") {
				continue // the psk modes differ from base/auth in the key schedule only
			}
			fn := "hpke.Receiver." + c10HpkeModeName[mode]
			decap := ki.cover + ".Decapsulate"
			if isAuth {
				decap = ki.cover + ".AuthDecapsulate"
			}
			cost := ki.cost
			if isAuth && ki.name == "X25519" {
				cost = kit.Slow // two scalar multiplications + key schedule: above 300 us on the shared machine
			}
			rows = append(rows, &kit.Row{Name: fn + "[" + ki.name + "]#enc", Covers: []string{fn, decap}, Cost: cost,
				Note: "an accepted opener is used: Open of the honest first ciphertext, Export(ctx, 32)",
				Setup: func() *kit.Inst {
					p := c10HpkeNewParty(ki)
					enc, sealer := p.send(mode, "a")
					ct, err := sealer.Seal(c10Msg, c10HpkeAad)
					c10Must(err)
					enc2, _ := p.send(mode, "b")
					// honest round trip
					o, err := c10HpkeRecv(p.suite, mode, p.skR, enc, c10HpkePsk, c10HpkePskID, p.pkS)
					c10Must(err)
					if pt, err := o.Open(ct, c10HpkeAad); err != nil || !bytes.Equal(pt, c10Msg) {
						panic(c10HpkeErrMismatch)
					}
					ppkR, err := p.pkR.MarshalBinary()
					c10Must(err)
					pskR, err := p.skR.MarshalBinary()
					c10Must(err)
					fs := c10HpkeForeigns(ki.name)
					inst := &kit.Inst{Bases: [][]byte{enc, enc2},
						Call: func(in []byte) error {
							o, err := c10HpkeRecv(p.suite, mode, p.skR, in, c10HpkePsk, c10HpkePskID, p.pkS)
							if err != nil {
								return err
							}
							c10HpkeUseOpener(o, ct)
							return nil
						},
						Extras: []kit.Named{{"receiver-public-key", ppkR}, {"receiver-private-key", pskR}, {"first-ciphertext", ct}}}
					for _, f := range fs {
						f := f
						inst.Extras = append(inst.Extras, kit.Named{Name: "enc-of-" + f.name, Data: f.enc})
						inst.Typed = append(inst.Typed, kit.Typed{Name: "skR-of-" + f.name, Call: func() error {
							_, err := c10HpkeRecv(p.suite, mode, f.sk, enc, c10HpkePsk, c10HpkePskID, p.pkS)
							return err
						}}, kit.Typed{Name: "skR-of-" + f.name + "+its-enc", Call: func() error {
							_, err := c10HpkeRecv(p.suite, mode, f.sk, f.enc, c10HpkePsk, c10HpkePskID, p.pkS)
							return err
						}})
						if isAuth {
							inst.Typed = append(inst.Typed, kit.Typed{Name: "pkS-of-" + f.name, Call: func() error {
								_, err := c10HpkeRecv(p.suite, mode, p.skR, enc, c10HpkePsk, c10HpkePskID, f.pk)
								return err
							}})
						}
					}
					return inst
				}})
			if isAuth && mode == c10HpkeAuth {
				rows = append(rows, &kit.Row{Name: fn + "[" + ki.name + "]#pkS", Cost: cost,
					Covers: []string{fn, ki.cover + ".AuthDecapsulate"},
					Note:   "the sender key arrives as bytes: parsed with the suite's KEM (UnmarshalBinaryPublicKey, a row of the kem family), then given to SetupAuth with the honest enc",
					Setup: func() *kit.Inst {
						p := c10HpkeNewParty(ki)
						enc, sealer := p.send(mode, "a")
						ct, err := sealer.Seal(c10Msg, c10HpkeAad)
						c10Must(err)
						ppkR, err := p.pkR.MarshalBinary()
						c10Must(err)
						sch := ki.id.Scheme()
						return &kit.Inst{Bases: [][]byte{p.ppkS},
							Call: func(in []byte) error {
								pk, err := sch.UnmarshalBinaryPublicKey(in)
								if err != nil {
									return err
								}
								o, err := c10HpkeRecv(p.suite, mode, p.skR, enc, nil, nil, pk)
								if err != nil {
									return err
								}
								c10HpkeUseOpener(o, ct)
								return nil
							},
							Extras: []kit.Named{{"receiver-public-key", ppkR}, {"enc", enc}}}
					}})
			}
			if isPSK && ki.name == "X25519" {
				for _, arg := range []string{"psk", "pskID"} {
					arg := arg
					rows = append(rows, &kit.Row{Name: fn + "[" + ki.name + "]#" + arg, Covers: []string{fn}, Cost: cost,
						Note: "circl places no length requirement on psk / pskID (RFC 9180 asks for >= 32 bytes of psk); every non-nil value is accepted",
						Setup: func() *kit.Inst {
							p := c10HpkeNewParty(ki)
							enc, sealer := p.send(mode, "a")
							ct, err := sealer.Seal(c10Msg, c10HpkeAad)
							c10Must(err)
							base := c10HpkePsk
							if arg == "pskID" {
								base = c10HpkePskID
							}
							return &kit.Inst{Bases: [][]byte{base},
								Call: func(in []byte) error {
									psk, id := c10HpkePsk, c10HpkePskID
									if arg == "psk" {
										psk = in
									} else {
										id = in
									}
									o, err := c10HpkeRecv(p.suite, mode, p.skR, enc, psk, id, p.pkS)
									if err != nil {
										return err
									}
									c10HpkeUseOpener(o, ct)
									return nil
								},
								Extras: []kit.Named{{"len31", c10Shake("hpke/x", 31)}, {"len255", c10Shake("hpke/x", 255)}, {"len256", c10Shake("hpke/x", 256)},
									{"len65535", c10Shake("hpke/x", 65535)}, {"len65536", c10Shake("hpke/x", 65536)}, {"len1MiB", c10Shake("hpke/x", 1<<20)}}}
						}})
				}
			}
		}
	}
	return rows
}

// ---------------------------------------------------------------------------------------------
// serialized contexts

// c10HpkeCtx builds a serialized context by hand (see hpke/marshal.go).
func c10HpkeCtx(role byte, kemID, kdfID, aeadID uint16, fields ...[]byte) []byte {
	o := []byte{role, byte(kemID >> 8), byte(kemID), byte(kdfID >> 8), byte(kdfID), byte(aeadID >> 8), byte(aeadID)}
	for _, f := range fields {
		o = append(o, byte(len(f)))
		o = append(o, f...)
	}
	return o
}

// c10HpkeCtxRaw: explicit (possibly lying) length bytes.
func c10HpkeCtxRaw(role byte, kemID, kdfID, aeadID uint16, parts ...interface{}) []byte {
	o := []byte{role, byte(kemID >> 8), byte(kemID), byte(kdfID >> 8), byte(kdfID), byte(aeadID >> 8), byte(aeadID)}
	for _, p := range parts {
		switch v := p.(type) {
		case int:
			o = append(o, byte(v))
		case []byte:
			o = append(o, v...)
		}
	}
	return o
}

type c10HpkeCtxSuite struct {
	name     string
	kems     [2]hpke.KEM
	kdf      hpke.KDF
	aead     hpke.AEAD
	nh, nk   int
	kemNames [2]string
}

func c10HpkeCtxSuites() []c10HpkeCtxSuite {
	return []c10HpkeCtxSuite{
		{"SHA256,AES128GCM", [2]hpke.KEM{hpke.KEM_X25519_HKDF_SHA256, hpke.KEM_XWING}, hpke.KDF_HKDF_SHA256, hpke.AEAD_AES128GCM, 32, 16, [2]string{"X25519", "XWing"}},
		{"SHA384,AES256GCM", [2]hpke.KEM{hpke.KEM_P256_HKDF_SHA256, hpke.KEM_X25519_KYBER768_DRAFT00}, hpke.KDF_HKDF_SHA384, hpke.AEAD_AES256GCM, 48, 32, [2]string{"P256", "X25519Kyber768"}},
		{"SHA512,ChaCha20Poly1305", [2]hpke.KEM{hpke.KEM_X448_HKDF_SHA512, hpke.KEM_P521_HKDF_SHA512}, hpke.KDF_HKDF_SHA512, hpke.AEAD_ChaCha20Poly1305, 64, 32, [2]string{"X448", "P521"}},
	}
}

// c10HpkeHonestCtx: serialized sealer and opener of an honest base-mode exchange after `used`
// messages, and the next ciphertext.
func c10HpkeHonestCtx(id hpke.KEM, kdf hpke.KDF, aead hpke.AEAD, label string, used int) (sealer, opener, nextCt []byte) {
	suite := hpke.NewSuite(id, kdf, aead)
	pkR, skR := c10HpkeDerive(id, "ctxR")
	s, err := suite.NewSender(pkR, c10HpkeInfo)
	c10Must(err)
	enc, sl, err := s.Setup(verifmc.NewDetReader("c10/hpke/ctx/" + label))
	c10Must(err)
	r, err := suite.NewReceiver(skR, c10HpkeInfo)
	c10Must(err)
	op, err := r.Setup(enc)
	c10Must(err)
	for i := 0; i < used; i++ {
		ct, err := sl.Seal(c10Msg, c10HpkeAad)
		c10Must(err)
		_, err = op.Open(ct, c10HpkeAad)
		c10Must(err)
	}
	sealer, err = sl.MarshalBinary()
	c10Must(err)
	opener, err = op.MarshalBinary()
	c10Must(err)
	nextCt, err = sl.Seal(c10Msg, c10HpkeAad)
	c10Must(err)
	if pt, err := op.Open(nextCt, c10HpkeAad); err != nil || !bytes.Equal(pt, c10Msg) {
		panic(c10HpkeErrMismatch)
	}
	return
}

// c10HpkeCtxExtras: hand-made hostile contexts for the given role byte and suite.
func c10HpkeCtxExtras(role byte, cs c10HpkeCtxSuite, otherRole []byte) []kit.Named {
	k, d, a := uint16(cs.kems[0]), uint16(cs.kdf), uint16(cs.aead)
	exp := c10Shake("hpke/ctx/exp", 255)
	key := c10Shake("hpke/ctx/key", 255)
	non := c10Shake("hpke/ctx/nonce", 255)
	zero := make([]byte, 255)
	ff := bytes.Repeat([]byte{0xff}, 255)
	E, K, N, S := exp[:cs.nh], key[:cs.nk], non[:12], zero[:12]
	x := []kit.Named{
		{"other-role", otherRole},
		{"role-byte-only", []byte{role}},
		{"header-only", c10HpkeCtx(role, k, d, a)},
		{"header+exp", c10HpkeCtx(role, k, d, a, E)},
		{"header+exp+key", c10HpkeCtx(role, k, d, a, E, K)},
		{"header+exp+key+nonce", c10HpkeCtx(role, k, d, a, E, K, N)},
		{"wellformed", c10HpkeCtx(role, k, d, a, E, K, N, S)},
		{"trailing-data", append(c10HpkeCtx(role, k, d, a, E, K, N, S), 1, 2, 3)},
		{"all-fields-empty", c10HpkeCtx(role, k, d, a, nil, nil, nil, nil)},
		{"exp-empty", c10HpkeCtx(role, k, d, a, nil, K, N, S)},
		{"key-empty", c10HpkeCtx(role, k, d, a, E, nil, N, S)},
		{"nonce-empty", c10HpkeCtx(role, k, d, a, E, K, nil, S)},
		{"seq-empty", c10HpkeCtx(role, k, d, a, E, K, N, nil)},
		{"nonce+seq-empty", c10HpkeCtx(role, k, d, a, E, K, nil, nil)},
		{"seq-1byte", c10HpkeCtx(role, k, d, a, E, K, N, zero[:1])},
		{"seq-11", c10HpkeCtx(role, k, d, a, E, K, N, zero[:11])},
		{"seq-13", c10HpkeCtx(role, k, d, a, E, K, N, zero[:13])},
		{"seq-255", c10HpkeCtx(role, k, d, a, E, K, N, zero[:255])},
		{"nonce-11", c10HpkeCtx(role, k, d, a, E, K, non[:11], S)},
		{"nonce-11+seq-11", c10HpkeCtx(role, k, d, a, E, K, non[:11], zero[:11])},
		{"nonce-13", c10HpkeCtx(role, k, d, a, E, K, non[:13], S)},
		{"nonce-13+seq-13", c10HpkeCtx(role, k, d, a, E, K, non[:13], zero[:13])},
		{"nonce-24+seq-24", c10HpkeCtx(role, k, d, a, E, K, non[:24], zero[:24])},
		{"nonce-255+seq-255", c10HpkeCtx(role, k, d, a, E, K, non[:255], zero[:255])},
		{"nonce-1+seq-1", c10HpkeCtx(role, k, d, a, E, K, non[:1], zero[:1])},
		{"nonce-255+seq-12", c10HpkeCtx(role, k, d, a, E, K, non[:255], S)},
		{"seq-allFF", c10HpkeCtx(role, k, d, a, E, K, N, ff[:12])},
		{"seq-FF..FE", c10HpkeCtx(role, k, d, a, E, K, N, append(append([]byte{}, ff[:11]...), 0xfe))},
		{"exp-1short", c10HpkeCtx(role, k, d, a, exp[:cs.nh-1], K, N, S)},
		{"exp-1long", c10HpkeCtx(role, k, d, a, exp[:cs.nh+1], K, N, S)},
		{"exp-1byte", c10HpkeCtx(role, k, d, a, exp[:1], K, N, S)},
		{"exp-255", c10HpkeCtx(role, k, d, a, exp[:255], K, N, S)},
		{"unknown-kem-0", c10HpkeCtx(role, 0, d, a, E, K, N, S)},
		{"unknown-kem-0x13", c10HpkeCtx(role, 0x13, d, a, E, K, N, S)},
		{"unknown-kem-0xFFFF", c10HpkeCtx(role, 0xffff, d, a, E, K, N, S)},
		{"unknown-kdf-0", c10HpkeCtx(role, k, 0, a, E, K, N, S)},
		{"unknown-kdf-4", c10HpkeCtx(role, k, 4, a, E, K, N, S)},
		{"unknown-kdf-0xFFFF", c10HpkeCtx(role, k, 0xffff, a, E, K, N, S)},
		{"unknown-aead-0", c10HpkeCtx(role, k, d, 0, E, K, N, S)},
		{"unknown-aead-4", c10HpkeCtx(role, k, d, 4, E, K, N, S)},
		{"aead-export-only-0xFFFF", c10HpkeCtx(role, k, d, 0xffff, E, nil, nil, nil)},
		{"aead-export-only-0xFFFF+fields", c10HpkeCtx(role, k, d, 0xffff, E, K, N, S)},
		{"ids-byte-swapped", c10HpkeCtx(role, k<<8|k>>8, d<<8, a<<8, E, K, N, S)},
		// lying length bytes
		{"exp-len-FF-short-body", c10HpkeCtxRaw(role, k, d, a, 0xff, E)},
		{"exp-len-FF-no-body", c10HpkeCtxRaw(role, k, d, a, 0xff)},
		{"key-len-FF-short-body", c10HpkeCtxRaw(role, k, d, a, cs.nh, E, 0xff, K)},
		{"key-len-FF-no-body", c10HpkeCtxRaw(role, k, d, a, cs.nh, E, 0xff)},
		{"nonce-len-FF-short-body", c10HpkeCtxRaw(role, k, d, a, cs.nh, E, cs.nk, K, 0xff, N)},
		{"seq-len-FF-short-body", c10HpkeCtxRaw(role, k, d, a, cs.nh, E, cs.nk, K, 12, N, 0xff, S)},
		{"seq-len-13-body-12", c10HpkeCtxRaw(role, k, d, a, cs.nh, E, cs.nk, K, 12, N, 13, S)},
		{"seq-len-12-no-body", c10HpkeCtxRaw(role, k, d, a, cs.nh, E, cs.nk, K, 12, N, 12)},
		{"exp-len-swallows-everything", c10HpkeCtxRaw(role, k, d, a, cs.nh+1+cs.nk+1+12+1+12, E, cs.nk, K, 12, N, 12, S)},
	}
	// key sizes of the other AEADs / AES-192 / off by one
	for _, n := range []int{1, 15, 16, 17, 24, 31, 32, 33, 64, 255} {
		if n != cs.nk {
			x = append(x, kit.Named{Name: "key-" + c10HpkeItoa(n), Data: c10HpkeCtx(role, k, d, a, E, key[:n], N, S)})
		}
	}
	// the same fields under every other AEAD / KDF id (length requirements differ)
	for _, a2 := range []uint16{1, 2, 3} {
		for _, d2 := range []uint16{1, 2, 3} {
			if a2 != a || d2 != d {
				x = append(x, kit.Named{Name: "ids-kdf" + c10HpkeItoa(int(d2)) + "-aead" + c10HpkeItoa(int(a2)), Data: c10HpkeCtx(role, k, d2, a2, E, K, N, S)})
			}
		}
	}
	return x
}

// c10HpkeClone: the unmarshalled context keeps pointing into the slice it was parsed from and Seal / Open
// increment the sequence number in place, i.e. inside the caller's buffer; rows hand over a private copy.
func c10HpkeClone(b []byte) []byte { return append(make([]byte, 0, len(b)), b...) }

func c10HpkeItoa(n int) string {
	if n == 0 {
		return "0"
	}
	var b []byte
	for ; n > 0; n /= 10 {
		b = append([]byte{byte('0' + n%10)}, b...)
	}
	return string(b)
}

func c10HpkeContextRows() []*kit.Row {
	var rows []*kit.Row
	for _, cs := range c10HpkeCtxSuites() {
		cs := cs
		for _, role := range []string{"Sealer", "Opener"} {
			role := role
			use := "hpke.sealContext.Seal"
			if role == "Opener" {
				use = "hpke.openContext.Open"
			}
			rows = append(rows, &kit.Row{Name: "hpke.Unmarshal" + role + "[" + cs.name + "]", Cost: kit.Cheap,
				Covers: []string{"hpke.Unmarshal" + role, use, "hpke.encdecContext.Export"},
				Note:   "an accepted context is used: Seal / Open of the honest next ciphertext, then Export(ctx, 32)",
				Setup: func() *kit.Inst {
					s0, o0, ct0 := c10HpkeHonestCtx(cs.kems[0], cs.kdf, cs.aead, cs.name+"/0", 0)
					s1, o1, _ := c10HpkeHonestCtx(cs.kems[1], cs.kdf, cs.aead, cs.name+"/1", 3)
					inst := &kit.Inst{}
					var other []byte
					if role == "Sealer" {
						inst.Bases, other = [][]byte{s0, s1}, o0
						inst.Call = func(in []byte) error {
							s, err := hpke.UnmarshalSealer(c10HpkeClone(in))
							if err != nil {
								return err
							}
							_, _ = s.Seal(c10Msg, c10HpkeAad)
							_ = s.Export(c10HpkeExp, 32)
							return nil
						}
						inst.Extras = c10HpkeCtxExtras(0, cs, other)
					} else {
						inst.Bases, other = [][]byte{o0, o1}, s0
						inst.Call = func(in []byte) error {
							o, err := hpke.UnmarshalOpener(c10HpkeClone(in))
							if err != nil {
								return err
							}
							c10HpkeUseOpener(o, ct0)
							return nil
						}
						inst.Extras = c10HpkeCtxExtras(1, cs, other)
					}
					// honest contexts of the other suites and of every KEM id
					for _, c2 := range c10HpkeCtxSuites() {
						if c2.name == cs.name {
							continue
						}
						a, b, _ := c10HpkeHonestCtx(c2.kems[0], c2.kdf, c2.aead, c2.name+"/0", 0)
						if role == "Opener" {
							a = b
						}
						inst.Extras = append(inst.Extras, kit.Named{Name: "honest-context-of-" + c2.name, Data: a})
					}
					for _, ki := range c10HpkeKems() {
						a, b, _ := c10HpkeHonestCtx(ki.id, ki.kdf, ki.aead, "kem/"+ki.name, 1)
						if role == "Opener" {
							a = b
						}
						inst.Extras = append(inst.Extras, kit.Named{Name: "honest-context-kem-" + ki.name, Data: a})
					}
					return inst
				}})
		}
	}
	return rows
}

// ---------------------------------------------------------------------------------------------
// Opener.Open and AEAD.New

func c10HpkeOpenRows() []*kit.Row {
	var rows []*kit.Row
	type ai struct {
		name string
		id   hpke.AEAD
		nk   int
	}
	aeads := []ai{{"AES128GCM", hpke.AEAD_AES128GCM, 16}, {"AES256GCM", hpke.AEAD_AES256GCM, 32}, {"ChaCha20Poly1305", hpke.AEAD_ChaCha20Poly1305, 32}}
	for _, a := range aeads {
		a := a
		rows = append(rows, &kit.Row{Name: "hpke.Opener.Open[" + a.name + "]#ct", Covers: []string{"hpke.openContext.Open"}, Cost: kit.Cheap,
			Note: "every call runs on a fresh opener (UnmarshalOpener of the stored honest context at sequence number 0), because a successful Open advances the sequence number",
			Setup: func() *kit.Inst {
				sb, ob, ct := c10HpkeHonestCtx(hpke.KEM_X25519_HKDF_SHA256, hpke.KDF_HKDF_SHA256, a.id, "open/"+a.name, 0)
				seal := func(pt []byte) []byte {
					s, err := hpke.UnmarshalSealer(c10HpkeClone(sb))
					c10Must(err)
					c, err := s.Seal(pt, c10HpkeAad)
					c10Must(err)
					return c
				}
				ctEmpty := seal([]byte{})
				ctLong := seal(c10Shake("hpke/pt", 100))
				// ciphertext number 1 (wrong sequence number for a fresh opener)
				s, err := hpke.UnmarshalSealer(c10HpkeClone(sb))
				c10Must(err)
				_, err = s.Seal(c10Msg, c10HpkeAad)
				c10Must(err)
				ctSeq1, err := s.Seal(c10Msg, c10HpkeAad)
				c10Must(err)
				ex := []kit.Named{{"ciphertext-number-1", ctSeq1}, {"opener-context", ob}, {"len15", c10Shake("hpke/ct", 15)}, {"len16", c10Shake("hpke/ct", 16)},
					{"len65536", c10Shake("hpke/ct", 65536)}, {"len1MiB", c10Shake("hpke/ct", 1<<20)}}
				for _, b := range aeads {
					if b.name != a.name {
						_, _, oc := c10HpkeHonestCtx(hpke.KEM_X25519_HKDF_SHA256, hpke.KDF_HKDF_SHA256, b.id, "open/"+b.name, 0)
						ex = append(ex, kit.Named{Name: "ciphertext-of-" + b.name, Data: oc})
					}
				}
				return &kit.Inst{Bases: [][]byte{ct, ctEmpty, ctLong},
					Call: func(in []byte) error {
						o, err := hpke.UnmarshalOpener(c10HpkeClone(ob))
						c10Must(err)
						_, err = o.Open(in, c10HpkeAad)
						return err
					},
					Extras: ex}
			}})
		rows = append(rows, &kit.Row{Name: "hpke.AEAD.New[" + a.name + "]#key", Covers: []string{"hpke.AEAD.New"}, Cost: kit.Cheap,
			Note: "returns an error for a key of a wrong length (AES accepts 16, 24 and 32 bytes whatever the identifier); an accepted cipher opens one ciphertext",
			Setup: func() *kit.Inst {
				key := c10Shake("hpke/aeadkey/"+a.name, a.nk)
				nonce := c10Shake("hpke/aeadnonce", 12)
				c, err := a.id.New(key)
				c10Must(err)
				ct := c.Seal(nil, nonce, c10Msg, c10HpkeAad)
				big := c10Shake("hpke/aeadkey/big", 65536)
				return &kit.Inst{Bases: [][]byte{key},
					Call: func(in []byte) error {
						c, err := a.id.New(in)
						if err != nil {
							return err
						}
						_, _ = c.Open(nil, nonce, ct, c10HpkeAad)
						return nil
					},
					Extras: []kit.Named{{"len16", big[:16]}, {"len24", big[:24]}, {"len32", big[:32]}, {"len33", big[:33]}, {"len64", big[:64]}, {"len65536", big}}}
			}})
	}
	return rows
}

func c10RowsHpke() []*kit.Row {
	var rows []*kit.Row
	rows = append(rows, c10HpkeContextRows()...)
	rows = append(rows, c10HpkeSetupRows()...)
	rows = append(rows, c10HpkeOpenRows()...)
	rows = append(rows, c10HpkeLifeRows()...) // zz_verif_c10_rows_hpkelife_test.go
	return rows
}

func init() { c10Register("hpke", c10RowsHpke) }

func TestVerifC10_hpke(t *testing.T) { c10Run(t, "hpke") }
